"""E5 (layout part): interpret the sensitivity routines of DeterministicOde / BaseLoss over
arrays of symbols at small concrete shapes and compare entry by entry with the
variational equations written in the documented vector layout.

Symbols:  f[i]  J[i,j]=df_i/dx_j  G[i,k]=df_i/dtheta_k  H[i,j,l]=d2f_i/dx_j dx_l (symmetric)
          GJ[i,k,l]=d2f_i/dtheta_k dx_l   x[i]  S[i,k]=dx_i/dtheta_k  IV[i,j]=dx_i/dx0_j
Layouts (documented):  by-parameter  sens[k*nS+i] = S[i,k]   (Fortran-order vec of S)
                       by-state      sens[i*nP+k] = S[i,k]
                       initial-value block iv[j*nS+i] = IV[i,j]
                       forward-forward rows (i,k) -> i*nP+k, columns l
"""
import ast

from ..core import algebra as A
from ..core.absint import Abs, Obj, Tok, Raised
from ..core.symarr import SymArr, np_summaries, dot, kron, append
from ..core.source import AnalysisError
from . import model as M

SHAPES = [(2, 3), (3, 2), (1, 2), (2, 1), (3, 3)]


def sym3(name, i, j, l):
    a, b = min(j, l), max(j, l)
    return A.sym("%s[%d,%d,%d]" % (name, i, a, b))


class World:
    """abstract DeterministicOde with symbolic evaluators at shape (nS, nP)"""

    def __init__(self, repo, nS, nP):
        self.repo = repo
        self.nS, self.nP = nS, nP
        self.cls = M.sim_class(repo)
        self.f = SymArr.symbols("f", (nS,))
        self.J = SymArr.symbols("J", (nS, nS))
        self.G = SymArr.symbols("G", (nS, nP)) if nP else SymArr.zeros((nS, 0))
        # diff_jacobian layout: rows (e, i) -> e*nS + i, column j
        self.DJ = SymArr((nS * nS, nS), [sym3("H", e, i, j) for e in range(nS) for i in range(nS) for j in range(nS)])
        # grad_jacobian layout: rows (k, i) -> k*nS + i, column l
        self.GJ = SymArr((nS * nP, nS), [A.sym("GJ[%d,%d,%d]" % (i, k, l)) for k in range(nP) for i in range(nS) for l in range(nS)]) if nP else SymArr.zeros((0, nS))
        self.x = SymArr.symbols("x", (nS,))
        self.S = SymArr.symbols("S", (nS, nP)) if nP else SymArr.zeros((nS, 0))
        self.IV = SymArr.symbols("IV", (nS, nS))
        self.calls = []

    # ---- vectors in the documented layouts
    def sens_vec(self, by_state=False):
        nS, nP = self.nS, self.nP
        if by_state:
            return SymArr((nS * nP,), [self.S.at((i, k)) for i in range(nS) for k in range(nP)])
        return SymArr((nS * nP,), [self.S.at((i, k)) for k in range(nP) for i in range(nS)])

    def iv_vec(self):
        nS = self.nS
        return SymArr((nS * nS,), [self.IV.at((i, j)) for j in range(nS) for i in range(nS)])

    def rhs_sens(self, by_state=False):
        """J S + G in the requested layout"""
        nS, nP = self.nS, self.nP
        Adot = dot(self.J, self.S) + self.G if nP else SymArr.zeros((nS, 0))
        if by_state:
            return SymArr((nS * nP,), [Adot.at((i, k)) for i in range(nS) for k in range(nP)])
        return SymArr((nS * nP,), [Adot.at((i, k)) for k in range(nP) for i in range(nS)])

    def rhs_iv(self):
        nS = self.nS
        B = dot(self.J, self.IV)
        return SymArr((nS * nS,), [B.at((i, j)) for j in range(nS) for i in range(nS)])

    def dsens_dx(self, i, k, l):
        """d/dx_l (J S + G)[i,k]"""
        t = A.sym("GJ[%d,%d,%d]" % (i, k, l))
        for j in range(self.nS):
            t = t + sym3("H", i, j, l) * self.S.at((j, k))
        return t

    def div_dx(self, i, j, l):
        """d/dx_l (J IV)[i,j]"""
        t = A.Rat.const(0)
        for m in range(self.nS):
            t = t + sym3("H", i, m, l) * self.IV.at((m, j))
        return t

    def jac_sens(self, by_state=False):
        """Jacobian of [f; vec(J S + G)] w.r.t. [x; vec(S)] in the requested layout"""
        nS, nP = self.nS, self.nP
        n = nS + nS * nP
        pos = (lambda i, k: nS + i * nP + k) if by_state else (lambda i, k: nS + k * nS + i)
        out = SymArr.zeros((n, n))
        for i in range(nS):
            for j in range(nS):
                out[i, j] = self.J.at((i, j))
        for i in range(nS):
            for k in range(nP):
                r = pos(i, k)
                for l in range(nS):
                    out[r, l] = self.dsens_dx(i, k, l)
                for j in range(nS):
                    out[r, pos(j, k)] = self.J.at((i, j))
        return out

    def jac_iv(self):
        nS, nP = self.nS, self.nP
        n = nS + nS * nP + nS * nS
        out = SymArr.zeros((n, n))
        base = self.jac_sens(False)
        m = nS + nS * nP
        for r in range(m):
            for c in range(m):
                out[r, c] = base.at((r, c))
        ivpos = lambda i, j: m + j * nS + i
        for i in range(nS):
            for j in range(nS):
                r = ivpos(i, j)
                for l in range(nS):
                    out[r, l] = self.div_dx(i, j, l)
                for q in range(nS):
                    out[r, ivpos(q, j)] = self.J.at((i, q))
        return out

    # ---- abstract self
    def self_obj(self):
        me = Obj("Model")
        me.attrs["_SAUtil"] = Obj("shapeAdjust", _d=self.nS, _p=self.nP, _m=self.nS)
        return me

    def getters(self):
        return {"num_state": lambda me: self.nS, "num_param": lambda me: self.nP}

    def summaries(self, extra=None):
        repo = self.repo
        sa_cls = repo.cls(M.M_UTILS, "shapeAdjust")
        mod = repo.module(M.M_UTILS)
        npsum = np_summaries()
        summ = dict(npsum)

        def modfunc(name):
            fn = mod.functions.get(name)
            if fn is None:
                raise AnalysisError("ode_utils.%s vanished" % name)

            def call(*args, **kw):
                ab = Abs({}, {}, dict(npsum), None)
                params = fn.params
                a = dict(zip(params, args))
                a.update(kw)
                kind, v = ab.run_function(fn.node, a)
                if kind == "raise":
                    raise Raised(v)
                return v
            return call
        for name in ("vecToMatSens", "vecToMatFF", "matToVecSens", "matToVecFF"):
            summ[name] = modfunc(name)
            summ["ode_utils." + name] = summ[name]

        def sa_method(name):
            fn = sa_cls.methods.get(name)
            if fn is None:
                raise AnalysisError("shapeAdjust.%s vanished" % name)

            def call(obj, *args, **kw):
                ab = Abs({}, {}, dict(summ), obj)
                ab.self_class = (self.repo, sa_cls)          # other (private, static) methods of the class are interpreted from their source
                ab.class_methods = set(sa_cls.methods) | set(sa_cls.getters)
                ab.module = fn.module
                ab.cur_cls = fn.cls
                a = dict(zip(fn.params[1:], args))
                a.update(kw)
                kind, v = ab.run_function(fn.node, a)
                if kind == "raise":
                    raise Raised(v)
                return v
            return call
        for name, fn_ in sa_cls.methods.items():
            static = any((getattr(d, "id", None) or getattr(d, "attr", None)) in ("staticmethod", "classmethod") for d in fn_.node.decorator_list)
            if not name.startswith("__") and not static:
                summ["shapeAdjust." + name] = sa_method(name)        # every instance method of the class, interpreted from its source
        w = self

        def rec(name, val):
            def fn(me, state, t, _n=name, _v=val):
                # the evaluators take (state, time): what they are handed must have those roles
                st_ok = (isinstance(state, SymArr) and state.size == w.nS) or (isinstance(state, (list, tuple)) and len(state) == w.nS)
                t_ok = not (isinstance(t, SymArr) and t.size != 1) and not isinstance(t, (list, tuple))
                if not (st_ok and t_ok):
                    raise Raised("TypeError(%s called with (%s, %s): the evaluators take (state of length %d, time))" % (
                        _n, "array of %d" % state.size if isinstance(state, SymArr) else type(state).__name__,
                        "array of %d" % t.size if isinstance(t, SymArr) else type(t).__name__, w.nS))
                w.calls.append((_n, state, t))
                return _v.copy()
            return fn
        summ["Model.ode"] = rec("ode", self.f)
        summ["Model.jacobian"] = rec("jacobian", self.J)
        summ["Model.grad"] = rec("grad", self.G)
        summ["Model.diff_jacobian"] = rec("diff_jacobian", self.DJ)
        summ["Model.grad_jacobian"] = rec("grad_jacobian", self.GJ)
        summ["InputError"] = lambda *a: Tok("InputError")
        if extra:
            summ.update(extra)
        return summ

    def method(self, name):
        fn = self.repo.resolve_method(self.cls, name)
        if fn is None:
            raise AnalysisError("DeterministicOde.%s vanished" % name)
        return fn

    def run(self, name, args, chain=()):
        """interpret method `name`; methods listed in `chain` are interpreted too when called
        (depth-bounded inlining), everything else must be a summary"""
        me = self.self_obj()
        summ = self.summaries()
        w = self

        def chained(mname):
            fn = w.method(mname)

            def call(me_, *a, **kw):
                ab = Abs({}, {}, summ, me_, w.getters())
                b = dict(zip(fn.params[1:], a))
                b.update(kw)
                kind, v = ab.run_function(fn.node, b)
                if kind == "raise":
                    raise Raised(v)
                return v
            return call
        for mname in chain:
            summ["Model." + mname] = chained(mname)
        fn = self.method(name)
        ab = Abs({}, {}, summ, me, self.getters())
        ab.class_methods = set(self.repo.all_methods(self.cls)) | {g for c in self.repo.mro(self.cls) for g in c.getters}
        return ab.run_function(fn.node, args)


def arr_eq(a, b):
    a, b = SymArr.of(a) if not isinstance(a, SymArr) else a, SymArr.of(b) if not isinstance(b, SymArr) else b
    if a.size != b.size:
        return False
    return all(x == y for x, y in zip(a.flat, b.flat)) and (a.shape == b.shape or a.ndim != b.ndim or True)


def first_diff(a, b, names=None):
    a = a if isinstance(a, SymArr) else SymArr.of(a)
    b = b if isinstance(b, SymArr) else SymArr.of(b)
    if a.shape != b.shape:
        return "shape %s instead of %s" % (a.shape, b.shape)
    for idx in a.indices():
        if a.at(idx) != b.at(idx):
            return "entry %s is %r, expected %r" % (list(idx), a.at(idx), b.at(idx))
    return None
