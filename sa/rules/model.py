"""Shared facts about the model classes: the evaluator registry (resolution of the
dynamic setattr in add_func), the operative canary class, property resolution,
transitive self-attribute read sets."""
import ast

from ..core.source import AnalysisError, is_self_attr, dotted, const_value, kwarg, walk_no_nested

M_BASE = "pygom.model.base_ode_model"
M_DET = "pygom.model.deterministic"
M_SIM = "pygom.model.simulate"
M_STOCH = "pygom.model.stochastic_simulation"
M_UTILS = "pygom.model.ode_utils"
M_CANARY = "pygom.model.ode_utils.compile_canary"
M_TRANS = "pygom.model.transition"
M_VERIF = "pygom.model._model_verification"
M_LOSS = "pygom.loss.base_loss"
M_LOSSTYPE = "pygom.loss.loss_type"
M_ODELOSS = "pygom.loss.ode_loss"
M_DISTN = "pygom.utilR.distn"
M_ABC = "pygom.approximate_bayesian_computation.approximate_bayesian_computation"
M_TAU = "pygom.model._tau_leap"


class Registration:
    def __init__(self, name, gen_name, gen, oT, master, call, func):
        self.name = name          # evaluator name, e.g. 'vMat'
        self.gen_name = gen_name  # generator method name
        self.gen = gen            # FuncInfo of generator (resolved on SimulateOde MRO)
        self.oT = oT              # 'vec' | 'mat' | None (auto)
        self.master = master
        self.call = call          # ast.Call
        self.func = func          # FuncInfo containing the call


def sim_class(repo):
    return repo.cls(M_SIM, "SimulateOde")


def registry(repo):
    """literal self.add_func("<name>", self.<generator>, oT=..., is_master_canary=...)
    call sites in the methods of SimulateOde's MRO"""
    sim = sim_class(repo)
    regs = []
    for c in repo.mro(sim):
        for f in c.methods.values():
            for n in walk_no_nested(f.node):
                if isinstance(n, ast.Call) and is_self_attr(n.func, "add_func"):
                    name = const_value(kwarg(n, "method_name", 0))
                    g = kwarg(n, "sympy_obj_generator_func", 1)
                    if not isinstance(name, str) or not is_self_attr(g):
                        raise AnalysisError("add_func call with non-literal name / generator at %s:%d"
                                            % (f.module.rel, n.lineno))
                    oT = kwarg(n, "oT", 2)
                    oTv = const_value(oT) if oT is not None else None
                    if oT is not None and not (isinstance(oT, ast.Constant)):
                        raise AnalysisError("add_func oT is not a literal at %s:%d" % (f.module.rel, n.lineno))
                    master = const_value(kwarg(n, "is_master_canary", 3), False)
                    gen = repo.resolve_method(sim, g.attr)
                    if gen is None:
                        raise AnalysisError("generator %s not found" % g.attr)
                    regs.append(Registration(name, g.attr, gen, oTv.lower() if isinstance(oTv, str) else None,
                                             bool(master), n, f))
    return regs


def operative_canary(repo):
    """the class instantiated into self._hasNewTransition by the most derived
    __init__ of SimulateOde's MRO that assigns it; returns (ClassInfo, assign stmt, FuncInfo)"""
    sim = sim_class(repo)
    for c in repo.mro(sim):
        init = c.methods.get("__init__")
        if init is None:
            continue
        for st in walk_no_nested(init.node):
            if isinstance(st, ast.Assign) and any(is_self_attr(t, "_hasNewTransition") for t in st.targets):
                if isinstance(st.value, ast.Call):
                    cn = dotted(st.value.func)
                    k = repo.find_class(cn, c.module) if cn else None
                    if k is None:
                        raise AnalysisError("cannot resolve canary class %s" % cn)
                    return k, st, init
    raise AnalysisError("no assignment of self._hasNewTransition found")


def canary_states(repo, k):
    for c in repo.mro(k):
        v = c.class_attrs.get("states")
        if v is not None:
            if isinstance(v, (ast.List, ast.Tuple)) and all(isinstance(e, ast.Constant) for e in v.elts):
                return [e.value for e in v.elts], c
            raise AnalysisError("canary states is not a literal list")
    return [], k


def getter_target(repo, cls, prop):
    """if property `prop` simply returns self._X (possibly on every path), give _X"""
    g = repo.resolve_getter(cls, prop)
    if g is None:
        return None
    rets = [n for n in walk_no_nested(g.node) if isinstance(n, ast.Return) and n.value is not None]
    tg = {r.value.attr for r in rets if is_self_attr(r.value)}
    if len(tg) == 1 and all(is_self_attr(r.value) for r in rets):
        return tg.pop()
    return None


def self_reads(repo, cls, func, depth=4, _seen=None, nested=False):
    """transitive set of self data-attributes read by func (through self.method()
    calls and property getters on the MRO of cls).  Nested function bodies are
    excluded unless nested=True (they run later, at call time)."""
    seen = _seen if _seen is not None else set()
    key = func.construct
    if key in seen or depth < 0:
        return set()
    seen.add(key)
    out = set()
    it = ast.walk(func.node) if nested else walk_no_nested(func.node)
    for n in it:
        if is_self_attr(n) and isinstance(n.ctx, ast.Load):
            a = n.attr
            g = repo.resolve_getter(cls, a)
            m = repo.resolve_method(cls, a)
            if g is not None:
                out |= self_reads(repo, cls, g, depth - 1, seen)
            elif m is not None:
                out |= self_reads(repo, cls, m, depth - 1, seen)
            else:
                out.add(a)
    return out


def methods_called(repo, cls, func):
    """[(FuncInfo callee, ast.Call)] for self.m(...) calls resolved on cls' MRO"""
    out = []
    for n in walk_no_nested(func.node):
        if isinstance(n, ast.Call) and is_self_attr(n.func):
            m = repo.resolve_method(cls, n.func.attr)
            if m is not None:
                out.append((m, n))
    return out
