"""Shared facts about the model classes: the evaluator registry (resolution of the
dynamic setattr in add_func), the operative canary class, property resolution,
transitive self-attribute read sets."""
import ast

from ..core.source import AnalysisError, is_self_attr, dotted, const_value, kwarg, walk_no_nested

M_BASE = "pygom.model.base_ode_model"
M_DET = "pygom.model.deterministic"
M_SIM = "pygom.model.simulate"
M_STOCH = "pygom.model.stochastic_simulation"
M_UTILS = "pygom.model.ode_utils"
M_CANARY = "pygom.model.ode_utils.compile_canary"
M_TRANS = "pygom.model.transition"
M_VERIF = "pygom.model._model_verification"
M_LOSS = "pygom.loss.base_loss"
M_LOSSTYPE = "pygom.loss.loss_type"
M_ODELOSS = "pygom.loss.ode_loss"
M_DISTN = "pygom.utilR.distn"
M_ABC = "pygom.approximate_bayesian_computation.approximate_bayesian_computation"
M_TAU = "pygom.model._tau_leap"


class Registration:
    def __init__(self, name, gen_name, gen, oT, master, call, func):
        self.name = name          # evaluator name, e.g. 'vMat'
        self.gen_name = gen_name  # generator method name
        self.gen = gen            # FuncInfo of generator (resolved on SimulateOde MRO)
        self.oT = oT              # 'vec' | 'mat' | None (auto)
        self.master = master
        self.call = call          # ast.Call
        self.func = func          # FuncInfo containing the call


def sim_class(repo):
    return repo.cls(M_SIM, "SimulateOde")


def _literal_rows(expr, func):
    """rows of a literal table (tuple/list of tuples/lists), directly or through a local name assigned once to one"""
    if isinstance(expr, ast.Name):
        defs = [st for st in walk_no_nested(func.node) if isinstance(st, ast.Assign) and any(isinstance(t, ast.Name) and t.id == expr.id for t in st.targets)]
        if len(defs) != 1:
            return None
        expr = defs[0].value
    if isinstance(expr, (ast.Tuple, ast.List)) and all(isinstance(r, (ast.Tuple, ast.List)) for r in expr.elts):
        return [list(r.elts) for r in expr.elts]
    return None


def _add_func_sites(f):
    """[(call node, {name: ast expr})]: add_func calls of a method, with loop variables of a loop over a literal table
    bound row by row (registrations written as a table are the same registrations)"""
    out = []

    def visit(stmts, env_rows):
        for st in stmts:
            if isinstance(st, ast.For):
                rows = _literal_rows(st.iter, f)
                tgt = st.target
                if rows is not None and isinstance(tgt, (ast.Tuple, ast.List)) and all(isinstance(t, ast.Name) for t in tgt.elts) \
                        and all(len(r) == len(tgt.elts) for r in rows):
                    new = []
                    for env in env_rows:
                        for r in rows:
                            e2 = dict(env)
                            e2.update({t.id: v for t, v in zip(tgt.elts, r)})
                            new.append(e2)
                    visit(st.body, new)
                    continue
                if rows is not None and isinstance(tgt, ast.Name):
                    # for row in table: self.add_func(*row) / self.add_func(row[0], row[1], ...)
                    new = []
                    for env in env_rows:
                        for r in rows:
                            e2 = dict(env)
                            e2[tgt.id] = ast.Tuple(elts=list(r), ctx=ast.Load())
                            new.append(e2)
                    visit(st.body, new)
                    continue
                visit(st.body, env_rows)
                visit(st.orelse, env_rows)
                continue
            for fld in ("body", "orelse", "finalbody"):
                sub = getattr(st, fld, None)
                if isinstance(sub, list) and sub and isinstance(sub[0], ast.stmt) and not isinstance(st, (ast.FunctionDef, ast.ClassDef)):
                    visit(sub, env_rows)
            if isinstance(st, ast.Try):
                for h in st.handlers:
                    visit(h.body, env_rows)
            if isinstance(st, (ast.FunctionDef, ast.ClassDef, ast.For, ast.While, ast.If, ast.With, ast.Try)):
                if not isinstance(st, (ast.If, ast.While, ast.With, ast.Try)):
                    continue
                # calls in the test / items are not registrations
                continue
            for n in walk_no_nested(st):
                if isinstance(n, ast.Call) and is_self_attr(n.func, "add_func"):
                    for env in env_rows:
                        out.append((n, env))
    visit(f.node.body, [{}])
    return out


def _subst(expr, env):
    if isinstance(expr, ast.Name) and expr.id in env:
        return env[expr.id]
    if isinstance(expr, ast.Subscript) and isinstance(expr.value, ast.Name) and expr.value.id in env \
            and isinstance(env[expr.value.id], ast.Tuple) and isinstance(const_value(expr.slice), int):
        return env[expr.value.id].elts[const_value(expr.slice)]
    return expr


def registry(repo):
    """self.add_func("<name>", self.<generator>, oT=..., is_master_canary=...) registrations in the methods of
    SimulateOde's MRO: literal call sites, or calls inside a loop over a literal table"""
    sim = sim_class(repo)
    regs = []
    for c in repo.mro(sim):
        for f in c.methods.values():
            for n, env in _add_func_sites(f):
                    args = list(n.args)
                    if len(args) == 1 and isinstance(args[0], ast.Starred):
                        star = _subst(args[0].value, env)
                        if isinstance(star, ast.Tuple):
                            args = list(star.elts)

                    def kw_(name, pos):
                        for k in n.keywords:
                            if k.arg == name:
                                return _subst(k.value, env)
                        if pos < len(args) and not isinstance(args[pos], ast.Starred):
                            return _subst(args[pos], env)
                        return None
                    name = const_value(kw_("method_name", 0))
                    g = kw_("sympy_obj_generator_func", 1)
                    if not isinstance(name, str) or not is_self_attr(g):
                        raise AnalysisError("add_func call with non-literal name / generator at %s:%d"
                                            % (f.module.rel, n.lineno))
                    oT = kw_("oT", 2)
                    oTv = const_value(oT) if oT is not None else None
                    if oT is not None and not (isinstance(oT, ast.Constant)):
                        raise AnalysisError("add_func oT is not a literal at %s:%d" % (f.module.rel, n.lineno))
                    master = const_value(kw_("is_master_canary", 3), False)
                    gen = repo.resolve_method(sim, g.attr)
                    if gen is None:
                        raise AnalysisError("generator %s not found" % g.attr)
                    regs.append(Registration(name, g.attr, gen, oTv.lower() if isinstance(oTv, str) else None,
                                             bool(master), n, f))
    return regs


def operative_canary(repo):
    """the class instantiated into self._hasNewTransition by the most derived
    __init__ of SimulateOde's MRO that assigns it; returns (ClassInfo, assign stmt, FuncInfo)"""
    sim = sim_class(repo)
    for c in repo.mro(sim):
        init = c.methods.get("__init__")
        if init is None:
            continue
        for st in walk_no_nested(init.node):
            if isinstance(st, ast.Assign) and any(is_self_attr(t, "_hasNewTransition") for t in st.targets):
                if isinstance(st.value, ast.Call):
                    cn = dotted(st.value.func)
                    k = repo.find_class(cn, c.module) if cn else None
                    if k is None:
                        raise AnalysisError("cannot resolve canary class %s" % cn)
                    return k, st, init
    raise AnalysisError("no assignment of self._hasNewTransition found")


def canary_states(repo, k):
    for c in repo.mro(k):
        v = c.class_attrs.get("states")
        if v is not None:
            if isinstance(v, (ast.List, ast.Tuple)) and all(isinstance(e, ast.Constant) for e in v.elts):
                return [e.value for e in v.elts], c
            raise AnalysisError("canary states is not a literal list")
    return [], k


def getter_target(repo, cls, prop):
    """if property `prop` simply returns self._X (possibly on every path), give _X"""
    g = repo.resolve_getter(cls, prop)
    if g is None:
        return None
    rets = [n for n in walk_no_nested(g.node) if isinstance(n, ast.Return) and n.value is not None]
    tg = {r.value.attr for r in rets if is_self_attr(r.value)}
    if len(tg) == 1 and all(is_self_attr(r.value) for r in rets):
        return tg.pop()
    return None


def self_reads(repo, cls, func, depth=4, _seen=None, nested=False):
    """transitive set of self data-attributes read by func (through self.method()
    calls and property getters on the MRO of cls).  Nested function bodies are
    excluded unless nested=True (they run later, at call time)."""
    seen = _seen if _seen is not None else set()
    key = func.construct
    if key in seen or depth < 0:
        return set()
    seen.add(key)
    out = set()
    it = ast.walk(func.node) if nested else walk_no_nested(func.node)
    for n in it:
        if is_self_attr(n) and isinstance(n.ctx, ast.Load):
            a = n.attr
            g = repo.resolve_getter(cls, a)
            m = repo.resolve_method(cls, a)
            if g is not None:
                out |= self_reads(repo, cls, g, depth - 1, seen)
            elif m is not None:
                out |= self_reads(repo, cls, m, depth - 1, seen)
            else:
                out.add(a)
    return out


def methods_called(repo, cls, func):
    """[(FuncInfo callee, ast.Call)] for self.m(...) calls resolved on cls' MRO"""
    out = []
    for n in walk_no_nested(func.node):
        if isinstance(n, ast.Call) and is_self_attr(n.func):
            m = repo.resolve_method(cls, n.func.attr)
            if m is not None:
                out.append((m, n))
    return out
