"""The recompile-flag object (CompileCanary and the subclass operative on SimulateOde), decided by interpretation.

Two instances of the operative class are built by interpreting its real `__init__`; class-level attributes (`states`,
`_states`) are shared between them exactly as python shares them.  Every history of at most three operations over
    {trip(), reset(name), obj.name = False, obj.name = True}  on either instance
is played through the class's own `trip` / `reset` / `__setattr__` / `__getattr__`, and after every operation every flag
of both instances is read back (through attribute access, as `add_func` does) and compared with what the property's
protocol says:
    a new object has every flag set; trip() sets every flag of *that* object; reset(name) and `obj.name = False` clear
    that one flag of that object; `obj.name = True` cannot set a flag; nothing done to one object changes another.
"""
import ast
import itertools

from ..core.absint import Abs, Obj, Raised
from ..core.algebra import Undecided
from ..core.source import AnalysisError, const_value


def _class_value(repo, cls, name, shared):
    """class-level attribute `name` as python evaluates it once per class (one shared object)"""
    key = (cls.name, name)
    if key in shared:
        return shared[key]
    for c in repo.mro(cls):
        if name in c.class_attrs:
            e = c.class_attrs[name]
            if isinstance(e, (ast.List, ast.Tuple)):
                v = [const_value(x) for x in e.elts]
                if any(not isinstance(x, str) for x in v):
                    raise Undecided("class attribute %s.%s is not a list of names" % (c.name, name))
            elif isinstance(e, ast.Dict) and not e.keys:
                v = {}
            elif isinstance(e, ast.Call) and isinstance(e.func, ast.Name) and e.func.id in ("dict", "list") and not e.args and not e.keywords:
                v = {} if e.func.id == "dict" else []
            else:
                raise Undecided("class attribute %s.%s = %s" % (c.name, name, ast.dump(e)[:60]))
            shared[key] = v
            return v
    return None


class Instance:
    def __init__(self, repo, cls, shared):
        self.repo, self.cls = repo, cls
        self.me = Obj("Canary")
        for nm in ("states", "_states"):
            v = _class_value(repo, cls, nm, shared)
            if v is not None:
                self.me.attrs[nm] = v              # found on the class until the instance rebinds it
        self.run("__init__", [])

    def _ab(self):
        ab = Abs({}, {}, {"str.format": lambda *a, **k: "<formatted>"}, self.me, {}, budget=20000)
        ab.self_class = (self.repo, self.cls)
        ab.class_methods = set(self.repo.all_methods(self.cls))
        return ab

    def run(self, method, args):
        f = self.repo.resolve_method(self.cls, method)
        if f is None:
            if method == "__init__":
                return None
            raise AnalysisError("%s.%s vanished" % (self.cls.name, method))
        ab = self._ab()
        ab.module = f.module
        ab.cur_cls = f.cls
        kind, out = ab.run_function(f.node, dict(zip(f.params[1:], args)))
        if kind != "return":
            raise Raised("%s(%s) raises %s" % (method, ", ".join(map(repr, args)), out))
        return out

    def assign(self, name, value):
        ab = self._ab()
        ab.env["__v"] = value
        ab.run(ast.parse("self.%s = __v" % name).body)

    def read(self, name):
        ab = self._ab()
        return ab.ev(ast.parse("self.%s" % name, mode="eval").body)


def check_canary(repo, res, canary, states, rule="R-CANARY", maxlen=3):
    trip = repo.resolve_method(canary, "trip")
    if trip is None:
        raise AnalysisError("canary class has no trip()")
    # the flags the operations name: the first one, and a pair of which one name is contained in the other when there is one
    # (names are strings: containment is not equality)
    names = list(states)[:1]
    pair = [(a, b) for a in states for b in states if a != b and a in b]
    for nm in (pair[0] if pair else list(states)[1:3]):
        if nm not in names:
            names.append(nm)
    if not names:
        res.undecided(rule, trip, "protocol", "the operative canary class declares no flags")
        return 0
    ops = [(0, "trip", None)]
    for nm in names:
        ops += [(0, "reset", nm), (0, "set-false", nm), (0, "set-true", nm)]
    ops += [(1, "trip", None), (1, "reset", names[0]), (1, "set-false", names[-1])]
    bad, n = [], 0
    import copy
    watch = list(names) + [s_ for s_ in states if s_ not in names][:1]

    def apply(inst, ref, who, op, nm):
        if op == "trip":
            inst[who].run("trip", [])
            ref[who] = {s: True for s in states}
        elif op == "reset":
            inst[who].run("reset", [nm])
            ref[who][nm] = False
        elif op == "set-false":
            inst[who].assign(nm, False)
            ref[who][nm] = False
        else:
            inst[who].assign(nm, True)        # "they may not be tripped in this way"

    def explore(inst, ref, steps, depth):
        """depth-first over histories; the two objects and the class-level objects they share are copied together"""
        nonlocal n
        n += 1
        # every flag at the start, afterwards the flags the operations name and one they never name
        why = _compare(inst, ref, states if depth == 0 else watch)
        if why:
            bad.append("%s: %s" % (" ; ".join(steps) or "two new objects", why))
            return
        if depth == maxlen or len(bad) >= 4:
            return
        for who, op, nm in ops:
            objs = copy.deepcopy([inst[0].me, inst[1].me])
            nxt = [copy.copy(inst[0]), copy.copy(inst[1])]
            nxt[0].me, nxt[1].me = objs
            ref2 = [dict(ref[0]), dict(ref[1])]
            label = "%s.%s" % ("ab"[who], op if nm is None else "%s(%s)" % (op, nm))
            try:
                apply(nxt, ref2, who, op, nm)
            except Raised as r:
                n += 1
                bad.append("%s: %s raises %s" % (" ; ".join(steps + [label]), label, r.exc))
                continue
            explore(nxt, ref2, steps + [label], depth + 1)
    try:
        shared = {}
        explore([Instance(repo, canary, shared), Instance(repo, canary, shared)], [{s: True for s in states}, {s: True for s in states}], [], 0)
    except Undecided as e:
        res.undecided(rule, trip, "protocol", "outside the modelled subset: %s" % e)
        return 0
    res.check(not bad, rule, trip, "protocol", "%d histories of <= %d operations (trip, reset, flag = False, flag = True) on two objects of %s: every flag of both objects "
              "reads as the protocol says (new/tripped: all set; reset and `= False` clear one flag of one object; `= True` sets nothing; objects are independent)"
              % (n, maxlen, canary.name), "; ".join(bad[:2]), node=trip.node)
    return n


def _compare(inst, ref, states):
    for who in (0, 1):
        for s in states:
            try:
                got = inst[who].read(s)
            except Raised as r:
                return "reading flag %s of object %s raises %s" % (s, "ab"[who], r.exc)
            if got is not ref[who][s] and not (isinstance(got, bool) and got == ref[who][s]):
                return "flag %s of object %s reads %r, the protocol says %r" % (s, "ab"[who], got, ref[who][s])
    return None
