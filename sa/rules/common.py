"""Small helpers shared by the checks."""
import ast

from ..core.source import dotted, norm, walk_no_nested, is_self_attr
from ..core.cfg import cfg_of
from ..core.dataflow import dataflow_of


def calls(func):
    """[(cfg node, ast.Call, callee text after alias expansion)] for every call
    evaluated in func (nested function bodies excluded)"""
    cfg, df = cfg_of(func), dataflow_of(func)
    out = []
    for n in cfg.stmt_nodes():
        for e in df.node_exprs(n):
            for c in walk_no_nested(e):
                if isinstance(c, ast.Call):
                    fx = c.func
                    if isinstance(fx, ast.Name):
                        fx = df.expand(fx, n)
                    out.append((n, c, dotted(fx) or norm(fx)))
    return out


def calls_to(func, suffixes):
    if isinstance(suffixes, str):
        suffixes = (suffixes,)
    return [(n, c, d) for n, c, d in calls(func) if any(d == s or d.endswith("." + s) for s in suffixes)]


def bind_args(call, params, defaults=None):
    """{param: expr} for a call against a parameter list (no self)"""
    out = {}
    for i, a in enumerate(call.args):
        if isinstance(a, ast.Starred):
            break
        if i < len(params):
            out[params[i]] = a
    for k in call.keywords:
        if k.arg is not None:
            out[k.arg] = k.value
    return out


def returns_of(func):
    cfg = cfg_of(func)
    return [n for n in cfg.stmt_nodes() if isinstance(n.ast, ast.Return)]


def if_guards(cfg, node):
    return [(t, o) for t, o in cfg.guards_of(node) if isinstance(t.ast, (ast.If, ast.While))]


def slice_parts(sl):
    if isinstance(sl, ast.Slice):
        return (None if sl.lower is None else norm(sl.lower), None if sl.upper is None else norm(sl.upper),
                None if sl.step is None else norm(sl.step))
    return None


def tuple_elts(e):
    return list(e.elts) if isinstance(e, ast.Tuple) else [e]
