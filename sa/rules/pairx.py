"""Semantic rules for the time-first side of the model (what scipy.integrate.ode calls): decided by calling things.

R-PAIRFJ  At every call site of `integrateFuncJac` the two callables handed over are *evaluated* (the argument expressions
          are interpreted on an abstract loss / model object whose model is the symbolic world of rules/layout.py) and then
          *called the way scipy.integrate.ode calls them*: f(t, y, *extra) and jac(t, y, *extra), t a time, y a vector of
          symbols.  What comes back is compared, entry by entry, with the state-first routines of the model interpreted at
          (y, t): func must compute one of the model's right-hand sides (ode, ode + sensitivities, + initial-value
          sensitivities, + second order, adjoint), and jac must compute *that system's* Jacobian routine at the same point.
          The evaluators of the world check the roles of their arguments, so a swapped (state, time) raises.
          How the callables are written (bound methods, lambdas, partials, renamed wrappers) is immaterial.

R-FWD     Every time-first twin `X_T` of the model class, called positionally as (t, ...), must return what `X` returns for
          the same roles.  First with `X` replaced by a recorder and opaque role tokens (any forwarding form is accepted;
          the recorder must receive each role under the base routine's own parameter), and, when the twin does not go
          through `X`, by interpreting both on sized symbolic inputs and comparing values.
"""
import ast

from ..core import algebra as A
from ..core.absint import Abs, Obj, Tok, Raised
from ..core.algebra import Undecided
from ..core.symarr import SymArr, append
from ..core.source import AnalysisError, norm
from . import common as C
from . import layout as L
from . import model as M
from .common import dataflow_of

# the model's systems: state-first right-hand side -> the routine that is its Jacobian (read from the class, confirmed by reading:
# each *_jacobian docstring names the system it differentiates); sizes of the augmented vector in terms of (nS, nP)
FAMILY = [
    ("ode", "jacobian", lambda s, p: s),
    ("ode_and_sensitivity", "ode_and_sensitivity_jacobian", lambda s, p: s + s * p),
    ("ode_and_sensitivityIV", "ode_and_sensitivityIV_jacobian", lambda s, p: s + s * p + s * s),
    ("ode_and_forwardforward", "ode_and_forwardforward_jacobian", lambda s, p: s + s * p + s * p * p),
    ("adjoint_interpolate", "adjoint_interpolate_jacobian", lambda s, p: s),
]
NS, NP = 2, 3


class _Probe:
    def __init__(self, repo):
        self.repo = repo
        self.w = L.World(repo, NS, NP)
        self.cls = self.w.cls
        self.me = self.w.self_obj()
        self.t = A.sym("t_now")

    def abs(self, self_obj=None, env=None):
        ab = Abs(dict(env or {}), {}, self.w.summaries(), self_obj if self_obj is not None else self.me, self.w.getters(), budget=400000)
        ab.class_methods = set(self.repo.all_methods(self.cls)) | {g for c in self.repo.mro(self.cls) for g in c.getters}
        ab.self_class = (self.repo, self.cls)
        return ab

    def inputs(self, fam):
        name, _, size = fam
        y = SymArr.symbols("y", (size(NS, NP),))
        if name.startswith("adjoint"):
            # the interpolating functions of the state: called with the time, they return the state at that time
            interp = [("py", (lambda tt, _i=i: self.w.x.at((_i,)))) for i in range(NS)]
            return y, [interp]
        return y, []

    def base(self, mname, y, extra):
        fn = self.repo.resolve_method(self.cls, mname)
        ab = self.abs()
        if fn is None:
            if "Model." + mname not in ab.summaries:
                return None
            target = ("bound", "Model." + mname, self.me)       # an evaluator registered by add_func (not a method of the class)
        else:
            target = ("imeth", fn, self.me)
        try:
            return ab.apply(target, [y.copy(), self.t] + list(extra), {})
        except Raised as r:
            raise Undecided("the state-first routine %s raises %s on the probe input" % (mname, r.exc))


def _same(a, b):
    try:
        a = a if isinstance(a, SymArr) else SymArr.of(a)
        b = b if isinstance(b, SymArr) else SymArr.of(b)
    except Exception:
        return a == b
    if a.size != b.size:
        return False
    return all(x == y for x, y in zip(a.flat, b.flat))


def _size(v):
    if isinstance(v, SymArr):
        return v.size
    if isinstance(v, (list, tuple)):
        return len(v)
    return None


def _callsites(repo):
    """every call of integrateFuncJac in the package, also inside nested helper functions and through a local alias
    (f = ode_utils.integrateFuncJac); the third item is the statement node of the enclosing function's flow graph or None"""
    out = []
    for m in repo.modules.values():
        if "integrateFuncJac" not in m.src:
            continue
        for f in list(m.functions.values()) + [x for c in m.classes.values() for x in list(c.methods.values()) + list(c.setters.values())]:
            if f.name == "integrateFuncJac":
                continue
            top = {id(c): n for n, c, callee in C.calls(f) if callee.endswith("integrateFuncJac")}
            aliases = set()
            for nd in ast.walk(f.node):
                if isinstance(nd, ast.Assign) and (C.dotted(nd.value) or "").endswith("integrateFuncJac"):
                    aliases |= {t.id for t in nd.targets if isinstance(t, ast.Name)}
            for nd in ast.walk(f.node):
                if not isinstance(nd, ast.Call):
                    continue
                dn = C.dotted(nd.func) or ""
                if id(nd) in top or dn.endswith("integrateFuncJac") or (isinstance(nd.func, ast.Name) and nd.func.id in aliases):
                    out.append((f, top.get(id(nd)), nd))
    return out


def check_callsites(repo, res, rule="R-PAIRFJ"):
    ifj = repo.try_func(M.M_UTILS, "integrateFuncJac")
    if ifj is None:
        raise AnalysisError("ode_utils.integrateFuncJac vanished")
    sites = _callsites(repo)
    n = 0
    for f, node, call in sites:
        res.functions.add(f.construct)
        b = C.bind_args(call, ifj.params)
        df_ = dataflow_of(f)
        P = _Probe(repo)
        is_model = f.cls is not None and any(c.name == f.cls for c in repo.mro(P.cls))
        holder = P.me if is_model else Obj("Loss", _ode=P.me)
        vals = {}
        und = None
        for role in ("func", "jac"):
            e = b.get(role)
            if e is None:
                und = "no %s argument" % role
                break
            if isinstance(e, ast.Name) and node is not None:
                e = df_.expand(e, node)
            # names bound to an attribute chain earlier in the function (model = self._ode) are expanded at their use
            e = _expand_names(e, df_, node)
            ab = P.abs(self_obj=P.me, env={"__holder__": holder})
            try:
                vals[role] = (ab.ev(e), ab)
            except Undecided as ex:
                und = "cannot evaluate the %s argument %s: %s" % (role, norm(e), ex)
                break
            except Raised as r:
                und = None
                res.violated(rule, f, "integrateFuncJac@%s" % norm(e)[:40], "evaluating the %s argument %s raises %s" % (role, norm(e), r.exc), node=call)
                vals = None
                break
        tag = "integrateFuncJac@%s" % (norm(b.get("func"))[:48] if b.get("func") is not None else "?")
        if vals is None:
            continue
        if und:
            res.undecided(rule, f, tag, und, node=call)
            continue
        n += 1
        verdict = _decide_pair(P, vals)
        if verdict[0] == "undecided":
            res.undecided(rule, f, tag, verdict[1], node=call)
        else:
            res.check(verdict[0] == "ok", rule, f, tag, verdict[1], verdict[1], node=call)
    return n


def _expand_names(e, df_, node):
    class T(ast.NodeTransformer):
        def visit_Name(self, nd):
            if nd.id == "self":
                return ast.copy_location(ast.Name(id="__holder__", ctx=ast.Load()), nd)
            if node is None:
                return nd
            try:
                x = df_.expand(nd, node)
            except Exception:
                return nd
            if x is nd or (isinstance(x, ast.Name) and x.id == nd.id):
                # the name may denote an object that was written to since (model = self._ode; model.parameters = ...): for the
                # question *which object* it is, the single definition by a plain reference still answers
                try:
                    d = df_.single_def(node, nd.id)
                except Exception:
                    d = None
                v = getattr(d, "value", None)
                if d is not None and d.kind == "assign" and not d.slot and v is not None and C.dotted(v) is not None:
                    import copy as _c
                    return self.visit(_c.deepcopy(v))
                return nd
            import copy as _c
            return self.visit(_c.deepcopy(x))
    import copy
    return ast.fix_missing_locations(T().visit(copy.deepcopy(e)))


def _decide_pair(P, vals):
    fv, fab = vals["func"]
    jv, jab = vals["jac"]
    raised, und, near = [], [], []
    for fam in FAMILY:
        name, partner, _ = fam
        y, extra = P.inputs(fam)
        try:
            want = P.base(name, y, extra)
        except Undecided as ex:
            und.append("%s: %s" % (name, ex))
            continue
        if want is None:
            continue
        try:
            got = fab.apply(fv, [P.t, y.copy()] + list(extra), {})
        except Raised as r:
            raised.append("as the right-hand side of the %s system: %s" % (name, r.exc))
            continue
        except Undecided as ex:
            und.append("%s: %s" % (name, ex))
            continue
        if not _same(got, want):
            if _size(got) == _size(want) and _size(got) is not None:
                near.append("as the right-hand side of the %s system it differs from %s(y, t): %s" % (
                    name, name, L.first_diff(got, want) if isinstance(got, SymArr) and isinstance(want, SymArr) and got.shape == want.shape else "values differ"))
            continue
        # func is this system's right-hand side; jac must be this system's Jacobian routine at the same point
        try:
            jwant = P.base(partner, y, extra)
        except Undecided as ex:
            return ("undecided", "%s: %s" % (partner, ex))
        if jwant is None:
            return ("undecided", "the model class has no %s" % partner)
        try:
            jgot = jab.apply(jv, [P.t, y.copy()] + list(extra), {})
        except Raised as r:
            return ("bad", "func computes %s(y, t) but jac, called as scipy.integrate.ode calls it - jac(t, y) - raises %s" % (name, r.exc))
        except Undecided as ex:
            return ("undecided", "jac: %s" % ex)
        if _same(jgot, jwant):
            return ("ok", "called as f(t, y) / jac(t, y): func computes %s(y, t) and jac computes %s(y, t), the Jacobian of that system" % (name, partner))
        return ("bad", "func computes %s(y, t) but jac(t, y) does not return %s(y, t), the Jacobian of that system: %s" % (
            name, partner, L.first_diff(jgot, jwant) if isinstance(jgot, SymArr) and isinstance(jwant, SymArr) else "got %r" % (jgot,)))
    if near:
        return ("bad", "func, called as f(t, y), computes none of the model's right-hand sides at (y, t): %s" % near[0])
    if und:
        return ("undecided", "; ".join(und[:2]))
    if raised:
        return ("bad", "func, called as scipy.integrate.ode calls it - f(t, y) - raises for every system of the model (%s)" % "; ".join(raised[:2]))
    return ("bad", "func, called as f(t, y), computes none of the model's right-hand sides at (y, t)")


# ------------------------------------------------------------------------------------------------------------- twins
def _twin_roles(tp, bp):
    """{base parameter: twin parameter}.  The documented contract of a twin: time is its first parameter; in the base routine time
    is the parameter named t / time, else the second one (the state-first convention).  The other roles: same name first, the
    rest in order"""
    m = {}
    rest_t, rest_b = list(tp), list(bp)
    if tp and bp:
        tb = next((p for p in bp if p in ("t", "time")), bp[1] if len(bp) > 1 else bp[0])
        m[tb] = tp[0]
        rest_t.remove(tp[0])
        rest_b.remove(tb)
    for p in list(rest_b):
        if p in rest_t:
            m[p] = p
            rest_t.remove(p)
            rest_b.remove(p)
    for a, b_ in zip(rest_b, rest_t):
        m[a] = b_
    return m


def _sized(P, name, params, defaults=()):
    """sized symbolic inputs by documented role of the parameter names of the sensitivity routines"""
    w = P.w
    nS, nP = NS, NP
    out = {}
    for p in params:
        if p in ("t", "time"):
            out[p] = P.t
        elif p == "state":
            out[p] = w.x.copy()
        elif p in ("sens", "s"):
            out[p] = w.sens_vec(False)
        elif p == "sensIV":
            out[p] = append(w.sens_vec(False), w.iv_vec())
        elif p == "ff":
            out[p] = SymArr.symbols("FF", (nS * nP * nP,))
        elif p == "state_param":
            fam = next((f for f in FAMILY if name in (f[0], f[1])), None)
            if fam is None:
                fam = ("", "", (lambda s, q: s + s * q) if "sens" in name else (lambda s, q: s))
            out[p] = SymArr.symbols("y", (fam[2](nS, nP),))
        elif p == "interpolant":
            out[p] = [("py", (lambda tt, _i=i: w.x.at((_i,)))) for i in range(nS)]
        elif p in defaults:
            out[p] = defaults[p]
        else:
            return None
    return out


def check_twins(repo, res, rule="R-FWD"):
    cls = M.sim_class(repo)
    regs = {r.name for r in M.registry(repo)}
    n = 0
    seen = set()
    for c_ in repo.mro(cls):
        for f in c_.methods.values():
            if not f.name.endswith("_T") or f.name.startswith("_") or f.name in seen:
                continue
            seen.add(f.name)
            base = f.name[:-2]
            bm = repo.resolve_method(cls, base)
            if bm is not None:
                bp = list(bm.params[1:])
            elif base in regs:
                bp = ["state", "t"]
            else:
                continue
            tp = list(f.params[1:])
            if not tp:
                continue
            n += 1
            res.functions.add(f.construct)
            roles = _twin_roles(tp, bp)
            defaults = _defaults(f)
            flag_params = [p for p in tp if isinstance(defaults.get(p), bool)]
            variants = [dict(zip(flag_params, bits)) for bits in _bits(len(flag_params))] or [{}]
            problems, und = [], None
            for var in variants:
                for with_optional in (True, False):
                    given = [p for p in tp if with_optional or p not in defaults or p in var]
                    try:
                        why = _twin_once(repo, cls, f, base, bm, bp, tp, roles, given, var, defaults)
                    except Undecided as ex:
                        und = str(ex)
                        continue
                    if why:
                        problems.append(why)
            if und and not problems:
                res.undecided(rule, f, "forward", und, node=f.node)
                continue
            res.check(not problems, rule, f, "forward", "%s(t, ...) returns what %s returns for the same roles (%d call forms)" % (f.name, base, 2 * len(variants)),
                      "%s: %s" % (f.name, "; ".join(sorted(set(problems))[:3])), node=f.node)
    return n


def _bits(k):
    import itertools
    return list(itertools.product((False, True), repeat=k)) if k else []


def _defaults(f):
    a = f.node.args
    names = [x.arg for x in a.args]
    out = {}
    for nm, d in zip(names[len(names) - len(a.defaults):], a.defaults):
        try:
            out[nm] = ast.literal_eval(d)
        except Exception:
            out[nm] = Tok("default-of-" + nm)
    return out


def _twin_once(repo, cls, f, base, bm, bp, tp, roles, given, var, defaults):
    # ---- level A: X replaced by a recorder, opaque roles
    vals = {p: (var[p] if p in var else Tok("<%s>" % p)) for p in given}
    rec = []

    def recorder(me_, *a, **kw):
        bound = dict(zip(bp, a))
        bound.update(kw)
        tok = Tok("value-of-%s#%d" % (base, len(rec)))
        rec.append((bound, tok))
        return tok
    P = _Probe(repo)
    summ = P.w.summaries({"Model." + base: recorder})
    ab = Abs({}, {}, summ, P.me, P.w.getters(), budget=200000)
    ab.class_methods = (set(repo.all_methods(cls)) | {g for c in repo.mro(cls) for g in c.getters}) - {base}
    ab.self_class = (repo, cls)
    bdefaults = _defaults(bm) if bm is not None else {}
    try:
        out = ab.apply(("imeth", f, P.me), [vals[p] for p in given], {})
        level_a = len(rec) == 1 and out is rec[0][1]
    except (Raised, Undecided):
        level_a = False
    if level_a:
        bound = rec[0][0]
        bad = []
        for b_ in bp:
            src = roles.get(b_)
            want = vals.get(src, defaults.get(src, bdefaults.get(b_))) if src is not None else bdefaults.get(b_)
            got = bound.get(b_, bdefaults.get(b_))
            if not (got is want or got == want):
                bad.append("%s receives %s as its `%s`%s" % (base, _nm(got), b_, ", expected the twin's `%s`" % src if src else ""))
        return "; ".join(bad) if bad else None
    # ---- level B: the twin does not simply hand over to X: interpret both on sized inputs
    sized = _sized(P, base, tp, defaults)
    if sized is None or bm is None:
        raise Undecided("%s does not return the result of %s and its parameters %s have no sized probe" % (f.name, base, tp))
    for p, v in var.items():
        sized[p] = v
    ab1, ab2 = P.abs(), P.abs()
    try:
        got = ab1.apply(("imeth", f, P.me), [sized[p] for p in given], {})
    except Raised as r:
        return "%s(%s) raises %s" % (f.name, ", ".join(given), r.exc)
    kw = {b_: sized[src] for b_, src in roles.items() if src in given}
    try:
        want = ab2.apply(("imeth", bm, P.me), [], kw)
    except Raised as r:
        raise Undecided("%s raises %s on the probe input" % (base, r.exc))
    if not _same(got, want):
        return "%s(%s) differs from %s for the same roles (%s)" % (f.name, ", ".join(given), base,
                                                                   L.first_diff(got, want) if isinstance(got, SymArr) and isinstance(want, SymArr) else "values differ")
    return None


def _nm(v):
    return v.label if isinstance(v, Tok) else repr(v)
