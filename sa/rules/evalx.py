"""Semantic rule for the evaluator protocol (add_func / add_compiled_sympy_object), decided by abstract
execution over all short histories.

Two evaluators (the master `ode` and a non-master one) are registered on an abstract model object by
interpreting the real `add_func`; then every history of length <= 4 over
    {evaluate ode, evaluate the other one, modify the model definition, add a parameter, assign parameter values}
is played against the registered closures (interpreted from their source).  The symbolic generator returns a
token naming the *current* definition, the compile back-end returns a function that records what it was
compiled from, `_getEvalParam` reads the parameter values current at call time.  After every step each
evaluation must return the value a freshly built model of the current definition returns:

    value = compiled(expression of the current definition, symbols _sp, registered output type)
            applied to  _getEvalParam(state, time) with the current parameter values.

Only values are compared: any rewriting of the guard / recompile routine that keeps evaluators fresh is
accepted, any that lets one go stale on some history is reported with that history.
"""
import itertools

from ..core.absint import Abs, Obj, Tok, Raised
from ..core.algebra import Undecided
from ..core.source import AnalysisError


class Canary:
    """the recompile flags as the property describes them: trip() sets every flag, reset(name) clears one"""
    _abs_native = True

    def __init__(self, names):
        object.__setattr__(self, "_flags", {n: True for n in names})

    def trip(self):
        for k in self._flags:
            self._flags[k] = True

    def reset(self, name):
        if name not in self._flags:
            raise Raised("AttributeError(canary has no state %s)" % name)
        self._flags[name] = False

    def __getattr__(self, name):
        fl = object.__getattribute__(self, "_flags")
        if name in fl:
            return fl[name]
        raise AttributeError(name)


def run_histories(repo, cls, names=("ode", "jacobian"), otypes=(None, "mat"), maxlen=4):
    """-> (list of failing history descriptions, number of histories played)"""
    add_func = repo.resolve_method(cls, "add_func")
    if add_func is None:
        raise AnalysisError("add_func vanished")
    ops = ["eval:" + names[0], "eval:" + names[1], "modify", "params", "add-parameter"]
    bad, n = [], 0
    for difficult in (False, True):
        # `difficult`: the model was flagged as needing the arbitrary-precision back-end (another branch of the compile call)
        for L in range(1, (maxlen if not difficult else min(maxlen, 3)) + 1):
            for hist in itertools.product(ops, repeat=L):
                if not hist[-1].startswith("eval:"):
                    continue        # a history is judged at evaluations; one ending in a mutation is a prefix of longer ones
                n += 1
                why = play(repo, cls, add_func, names, otypes, hist, difficult)
                if why:
                    bad.append("%s%s: %s" % (" -> ".join(hist), " (difficult-expression back-end)" if difficult else "", why))
                    if len(bad) >= 6:
                        return bad, n
    return bad, n


def play(repo, cls, add_func, names, otypes, hist, difficult=False):
    world = {"gen": 0, "params": 0, "lists": 0}
    me = Obj("Model", verbose=False, _isDifficult=difficult, _sp=Tok("symbols-of-lists-0"))
    me.attrs["_hasNewTransition"] = Canary(list(names))
    sc = Obj("SC")
    me.attrs["_SC"] = sc

    def compile_(me_sc, inputSymb=None, inputExpr=None, modules=None, outType=None, **k):
        rec = ("compiled", inputExpr, inputSymb, outType)
        return ("py", lambda args, *a, **kw: ("value", rec, args))

    def eval_param(me_, state, time, parameters=None):
        return ("args", state, time, "params@%d" % world["params"])
    def set_sp(me_):
        me_.attrs["_sp"] = Tok("symbols-of-lists-%d" % world["lists"])     # the symbol order is a function of the current state / parameter lists
    summ = {"SC.compileExprAndFormat": compile_, "Model._getEvalParam": eval_param, "Model.set_sp": set_sp,
            "types.MethodType": lambda f, o: ("boundclosure", f, o), "MethodType": lambda f, o: ("boundclosure", f, o), "functools.partial": lambda f, *a: ("boundclosure", f, a[0]) if len(a) == 1 else None,
            "print": lambda *a, **k: None}

    def make_gen(nm):
        return ("py", lambda: Tok("%s-of-definition-%d" % (nm, world["gen"])))

    def fresh_ab():
        ab = Abs({}, {}, summ, me, {}, budget=20000)
        ab.class_methods = set(repo.all_methods(cls)) | {g for c in repo.mro(cls) for g in c.getters}
        return ab
    p = add_func.params[1:]
    for i, nm in enumerate(names):
        ab = fresh_ab()
        args = dict(zip(p, [nm, make_gen(nm), otypes[i], i == 0]))
        kind, out = ab.run_function(add_func.node, args)
        if kind != "return":
            return "add_func(%s) raises %s" % (nm, out)
        if nm not in me.attrs:
            return "add_func(%s) does not bind an evaluator under that name" % nm
    for step, op in enumerate(hist):
        if op == "modify":
            world["gen"] += 1
            me.attrs["_hasNewTransition"].trip()       # what every mutator does (decided separately by R-TRIP)
        elif op == "add-parameter":
            world["lists"] += 1                         # param_list setter: a new symbol joins the lists, the definition changes with it,
            world["gen"] += 1                           # the flags are tripped - and nothing else happens (the symbol order is not rebuilt there)
            me.attrs["_hasNewTransition"].trip()
        elif op == "params":
            world["params"] += 1                        # the setter rebuilds the value list and the symbol order; no recompilation is needed for that
            set_sp(me)
        else:
            nm = op.split(":")[1]
            i = names.index(nm)
            ab = fresh_ab()
            x, t = Tok("x%d" % step), Tok("t%d" % step)
            try:
                got = ab.apply(me.attrs[nm], [x, t], {})
            except Raised as r:
                return "step %d: evaluating %s raises %s" % (step + 1, nm, r.exc)
            want = ("value", ("compiled", Tok("%s-of-definition-%d" % (nm, world["gen"])), Tok("symbols-of-lists-%d" % world["lists"]), otypes[i]),
                    ("args", x, t, "params@%d" % world["params"]))
            if got != want:
                return "step %d: %s(x, t) returns %s, a freshly built model of the current definition returns %s" % (step + 1, nm, _show(got), _show(want))
    return None


def _show(v):
    if isinstance(v, tuple) and v and v[0] == "value":
        rec, args = v[1], v[2]
        return "compiled[%s, symbols=%s, outType=%r] applied to %s" % (rec[1] if isinstance(rec, tuple) and len(rec) > 1 else rec,
                                                                      rec[2] if isinstance(rec, tuple) and len(rec) > 2 else "?",
                                                                      rec[3] if isinstance(rec, tuple) and len(rec) > 3 else "?", args,)
    return repr(v)
