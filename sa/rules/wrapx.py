"""Abstract execution of the R-style helpers of utilR/distn.py against library models.

A helper is interpreted (core/absint.py; helpers of the same module are inlined from their source) with
`st.<family>` replaced by a recording distribution object and `np.random` / `RandomState` by recording
generators (core/libmodel.py); numeric parameters are symbols of the rational-function algebra, so that
`1.0/rate`, `1/rate`, `rate**-1`, `max - min` are compared as values, not as text.  The outcome of a run
is the record of the library call whose result is returned.
"""
from ..core import algebra as A
from ..core.absint import Abs, Raised
from ..core.libmodel import StatsModule, Gen, Rec, Applied, is_randomstate
from ..core.numarr import NumArr


def _np_fn(name, alg):
    def f(x, *a, **k):
        if isinstance(x, (Rec, Applied)):
            return Applied("np." + name, x)
        return alg(x)
    return f


def summaries(extra=None):
    s = {
        "np.exp": _np_fn("exp", A.exp), "np.log": _np_fn("log", A.log), "np.sqrt": _np_fn("sqrt", A.sqrt),
        "math.exp": _np_fn("exp", A.exp), "math.log": _np_fn("log", A.log),
        "gammaln": A.lgamma, "sc.gammaln": A.lgamma, "scipy.special.gammaln": A.lgamma, "special.gammaln": A.lgamma,
        "np.asarray": lambda x, *a, **k: x, "np.array": lambda x, *a, **k: x, "np.atleast_1d": lambda x: x,
        "float": lambda x: x, "int": lambda x: x, "abs": lambda x: x,
    }
    if extra:
        s.update(extra)
    return s


def run(f, args, registry=None, extra=None):
    """interpret helper `f` (FuncInfo) with keyword `args`; -> (kind, value, generator registry)"""
    reg = registry if registry is not None else []
    gen = Gen("global", None, reg)
    ab = Abs({}, {"np.random.RandomState": is_randomstate, "numpy.random.RandomState": is_randomstate,
                  "np.random.mtrand.RandomState": is_randomstate}, summaries(extra), None, {}, budget=50000)
    ab.consts = {"st": StatsModule("st"), "scipy.stats": StatsModule("st"), "stats": StatsModule("st"),
                 "np.random": gen, "numpy.random": gen}
    ab.module = f.module
    kind, out = ab.run_function(f.node, dict(args))
    return kind, out, reg


def rat(v):
    """abstract value -> canonical rational function or None"""
    try:
        return A.lift(v)
    except Exception:
        return None


def same_value(a, b):
    if isinstance(a, Rec) or isinstance(b, Rec):
        return isinstance(a, Rec) and a.same(b)
    if isinstance(a, Applied) or isinstance(b, Applied):
        return isinstance(a, Applied) and isinstance(b, Applied) and a.fn == b.fn and same_value(a.arg, b.arg)
    ra, rb = rat(a), rat(b)
    if ra is not None and rb is not None:
        return ra == rb
    return a == b and type(a) is type(b)
