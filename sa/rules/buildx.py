"""Semantic rules for the symbolic model builders, decided by abstract execution on enumerated model definitions.

`get_ode_eqn`, `get_StateChangeMatrix`, `get_EventRateVector`, `get_pureOdeVector`, `get_BirthDeathVector`,
`get_TransitionMatrix` and `get_ReactantMatrix` are interpreted by the checker on a set of abstract model
definitions (events of 1..3 B/D/T transitions with symbolic rates r<e> and symbolic magnitudes m<e>_<k>, shared
origins / destinations, explicit ODE terms, one-state and one-event shapes).  `checkEquation` is replaced by the
identity on symbols (string -> sympy parsing is trusted), `sympy.zeros` by a matrix of canonical rational
functions.  The result must equal, entry by entry and as polynomial identities in the rate and magnitude symbols,
what the property defines:

    V[i, e]     = sum over the member transitions of event e of  (+m if i is the destination of a B or T)
                                                                  (-m if i is the origin of a D or T)
    rates[e]    = r_e
    ode[i]      = sum_e r_e * V[i, e]  +  explicit terms for i
    pure[i]     = explicit terms for i
    reactant[i, e] = 1 if state i takes part in event e, else 0

Only values are compared, so any rewriting of a builder that computes the same matrices is accepted.
"""
from ..core import algebra as A
from ..core.absint import Abs, Obj, Tok, Raised
from ..core.algebra import Undecided
from ..core.symarr import SymArr
from ..core.source import AnalysisError
from . import model as M

TT = Obj("TransitionTypeEnum", B=Tok("B", "enum"), D=Tok("D", "enum"), T=Tok("T", "enum"), ODE=Tok("ODE", "enum"))


def _var(n):
    return Obj("ODEVariable", ID=n, name=n, __str__=n)


def _eq_hook(a, b):
    for x, y in ((a, b), (b, a)):
        if isinstance(x, Obj) and x.cls == "ODEVariable":
            if isinstance(y, str):
                return x.attrs["ID"] == y
            if isinstance(y, Tok) and y.kind == "sym":
                return x.attrs["ID"] == y.label
            if isinstance(y, Obj) and y.cls == "ODEVariable":
                return x.attrs["ID"] == y.attrs["ID"]
            return False
    return None


def _mag(m):
    """magnitude / term source text -> value, as the (trusted) parser reads it: a number or a symbol"""
    try:
        return A.Rat.const(int(m))
    except ValueError:
        return A.sym(m)


class Definition:
    """events: [(rate name, [(type, origin, destination, magnitude name)])]; odes: [(state, term name)]"""

    def __init__(self, name, states, events, odes=(), what=""):
        self.name, self.states, self.events, self.odes, self.what = name, list(states), list(events), list(odes), what

    # ---- what the property defines
    def V(self):
        nS, nE = len(self.states), len(self.events)
        V = [[A.Rat.const(0) for _ in range(nE)] for _ in range(nS)]
        for e, (_r, trs) in enumerate(self.events):
            for (tt, o, d, m) in trs:
                mm = _mag(m)
                if tt in ("D", "T"):
                    V[self.states.index(o)][e] = V[self.states.index(o)][e] - mm
                if tt in ("B", "T"):
                    V[self.states.index(d)][e] = V[self.states.index(d)][e] + mm
        return V

    def rates(self):
        return [A.sym(r) for r, _ in self.events]

    def pure(self):
        out = [A.Rat.const(0) for _ in self.states]
        for s, term in self.odes:
            out[self.states.index(s)] = out[self.states.index(s)] + A.sym(term)
        return out

    def ode(self):
        V, a, p = self.V(), self.rates(), self.pure()
        return [sum((V[i][e] * a[e] for e in range(len(a))), A.Rat.const(0)) + p[i] for i in range(len(self.states))]

    def birth_death(self):
        out = [A.Rat.const(0) for _ in self.states]
        for e, (r, trs) in enumerate(self.events):
            for (tt, o, d, m) in trs:
                if tt == "B":
                    out[self.states.index(d)] = out[self.states.index(d)] + _mag(m) * A.sym(r)
                elif tt == "D":
                    out[self.states.index(o)] = out[self.states.index(o)] - _mag(m) * A.sym(r)
        return out

    def transition_matrix(self):
        n = len(self.states)
        out = [[A.Rat.const(0) for _ in range(n)] for _ in range(n)]
        for e, (r, trs) in enumerate(self.events):
            for (tt, o, d, m) in trs:
                if tt == "T":
                    i, j = self.states.index(o), self.states.index(d)
                    out[i][j] = out[i][j] + _mag(m) * A.sym(r)
        return out

    def reactant(self):
        nS, nE = len(self.states), len(self.events)
        L = [[0] * nE for _ in range(nS)]
        for e, (_r, trs) in enumerate(self.events):
            for (tt, o, d, m) in trs:
                if tt in ("D", "T"):
                    L[self.states.index(o)][e] = 1
                if tt in ("B", "T"):
                    L[self.states.index(d)][e] = 1
        return L


def definitions():
    S = ["S0", "S1", "S2"]
    ds = [
        Definition("one-of-each", S, [("r0", [("T", "S0", "S1", "m0")]), ("r1", [("B", None, "S2", "m1")]), ("r2", [("D", "S1", None, "m2")])],
                   what="three single-transition events: a transition, a birth, a death"),
        Definition("shared-states", S, [("r0", [("T", "S0", "S1", "m0_0"), ("T", "S1", "S2", "m0_1")]),
                                        ("r1", [("B", None, "S0", "m1_0"), ("D", "S0", None, "m1_1")])],
                   what="events whose member transitions share a state (S1 gains and loses in one event; birth and death of S0 in one event)"),
        Definition("fan-out", S, [("r0", [("T", "S0", "S1", "m0_0"), ("T", "S0", "S2", "m0_1")]), ("r1", [("T", "S2", "S0", "m1_0")]),
                                  ("r2", [("T", "S1", "S2", "m2_0"), ("D", "S2", None, "m2_1"), ("B", None, "S1", "m2_2")])],
                   what="one origin feeding two destinations with different magnitudes; a three-member event"),
        Definition("closed", S, [("r0", [("T", "S0", "S1", "m0_0"), ("T", "S1", "S2", "m0_1")]), ("r1", [("T", "S2", "S0", "m1_0")]),
                                 ("r2", [("T", "S0", "S2", "m2_0"), ("T", "S0", "S1", "m2_1"), ("T", "S1", "S0", "m2_2")])],
                   what="closed model: between-state transitions only, multi-member events, symbolic magnitudes"),
        Definition("literal-magnitudes", S, [("r0", [("T", "S0", "S1", "2"), ("T", "S1", "S2", "1")]), ("r1", [("D", "S2", None, "1")]),
                                             ("r2", [("B", None, "S0", "3"), ("T", "S0", "S2", "1"), ("T", "S2", "S1", "c")])],
                   what="numeric magnitudes, the default '1' after a member with another magnitude in the same event"),
        Definition("birth-first", S, [("r0", [("B", None, "S1", "m0")]), ("r1", [("T", "S1", "S0", "m1")]), ("r2", [("D", "S0", None, "m2")]), ("r3", [("T", "S0", "S2", "m3")])],
                   what="birth and death events listed before and between transition events"),
        Definition("explicit-terms", S, [("r0", [("T", "S0", "S1", "m0")])], odes=[("S1", "o0"), ("S2", "o1"), ("S1", "o2")],
                   what="an event plus explicit ODE terms, two of them for the same state"),
        Definition("only-odes", S, [], odes=[("S0", "o0"), ("S2", "o1")], what="no events, explicit ODE terms only"),
        Definition("one-state-one-event", ["S0"], [("r0", [("D", "S0", None, "m0")])], what="a single state with a single death event"),
        Definition("one-event", S, [("r0", [("T", "S2", "S0", "m0")])], what="three states, a single event"),
        Definition("one-state", ["S0"], [("r0", [("B", None, "S0", "m0")]), ("r1", [("D", "S0", None, "m1")])], what="a single state with a birth and a death event"),
    ]
    return ds


class _NoTables(tuple):
    """what the (private) table helper hands to checkEquation in this world: an empty variable list and an empty table of derived
    parameters - as the pair the package has always used (unpacking, `*`), and as nothing at all when spread with `**`"""
    _abs_native = True

    def __new__(cls):
        return tuple.__new__(cls, ([], {}))

    def keys(self):
        return []


class SymMat(SymArr):
    """sympy-Matrix flavoured array of canonical rational functions: flat single-integer indexing, iteration over elements"""

    def __getitem__(self, key):
        if isinstance(key, int) and self.ndim == 2:
            return self.flat[key]
        return SymArr.__getitem__(self, key)

    def __setitem__(self, key, value):
        if isinstance(key, int) and self.ndim == 2:
            self.flat[key] = A.lift(value)
            return
        SymArr.__setitem__(self, key, value)

    def __iter__(self):
        return iter(self.flat)

    def __len__(self):
        return self.size

    @property
    def rows(self):
        return self.shape[0]

    @property
    def cols(self):
        return self.shape[1]

    def __add__(self, o):
        r = SymArr.__add__(self, o)
        return SymMat(r.shape, r.flat)

    def copy(self):
        return SymMat(self.shape, list(self.flat))

    def __deepcopy__(self, memo):
        return self.copy()


def model_obj(d):
    me = Obj("Model", _isDifficult=False, _t=A.sym("t"))
    me.attrs["_stateList"] = [_var(s) for s in d.states]
    evs = []
    for r, trs in d.events:
        tl = []
        for (tt, o, dd, m) in trs:
            t = Obj("Transition", transition_type=TT.attrs[tt], _magnitude=m, magnitude=("alias", "_magnitude"),
                    equation=("alias", "_equation"), _equation=None, origin=o, destination=dd)
            tl.append(t)
        evs.append(Obj("Event", rate=r, transition_list=tl, _transition_list=("alias", "transition_list")))
    me.attrs["_eventList"] = evs
    me.attrs["_odeList"] = [Obj("Transition", transition_type=TT.attrs["ODE"], origin=s, destination=None, equation=("alias", "_equation"),
                                _equation=term, _magnitude="1", magnitude=("alias", "_magnitude")) for s, term in d.odes]
    return me


def summaries():
    def check_equation(src, *a, **k):
        if isinstance(src, str):
            try:
                return A.Rat.const(int(src))
            except ValueError:
                return A.sym(src)
        return A.lift(src)

    def zeros(r, c=None, *a, **k):
        if isinstance(r, (tuple, list)):
            r, c = r
        c = r if c is None else c
        return SymMat((r, c), [0] * (r * c))
    def matrix(*a):
        # sympy.Matrix(rows, cols, flat list) | sympy.Matrix(list of rows) | sympy.Matrix(flat list -> column)
        if len(a) == 3:
            r, c, flat = a
            flat = list(flat.flat) if isinstance(flat, SymArr) else list(flat)
            return SymMat((r, c), flat)
        v = a[0]
        if isinstance(v, SymArr):
            return SymMat(v.shape if v.ndim == 2 else (v.shape[0], 1), list(v.flat))
        v = list(v)
        if v and isinstance(v[0], (list, tuple)):
            return SymMat((len(v), len(v[0])), [x for row in v for x in row])
        return SymMat((len(v), 1), v)
    return {
        "checkEquation": check_equation, "Model._getListOfVariablesDict": lambda me: _NoTables(),
        "sympy.zeros": zeros, "np.zeros": zeros, "sympy.Matrix.zeros": zeros,
        "simplifyEquation": lambda e: (e, False), "copy.deepcopy": lambda x: x.copy() if hasattr(x, "copy") else x,
        "sympy.Integer": lambda v: A.Rat.const(int(v)), "sympy.S": lambda v: A.lift(v), "sympy.sympify": lambda v: A.lift(v),
        "sympy.Matrix": matrix, "sympy.ImmutableMatrix": matrix, "sympy.Add": lambda *a: sum((A.lift(x) for x in a), A.Rat.const(0)),
    }


GETTERS = {
    "num_state": lambda me: len(me.attrs["_stateList"]), "num_events": lambda me: len(me.attrs["_eventList"]),
    "state_list": lambda me: me.attrs["_stateList"], "event_list": lambda me: me.attrs["_eventList"], "ode_list": lambda me: me.attrs["_odeList"],
    "num_transitions": lambda me: len(me.attrs["_eventList"]),
}

BUILDERS = {
    # builder -> (spec function name, shape kind)
    "get_StateChangeMatrix": ("V", "mat"), "get_EventRateVector": ("rates", "vec"), "get_ode_eqn": ("ode", "vec"),
    "get_pureOdeVector": ("pure", "vec"), "get_BirthDeathVector": ("birth_death", "vec"), "get_TransitionMatrix": ("transition_matrix", "mat"),
    "get_ReactantMatrix": ("reactant", "mat"),
}
TEXT = {
    "get_StateChangeMatrix": "V[i, e] = sum of the signed magnitudes of event e's member transitions on state i",
    "get_EventRateVector": "rate vector entry e = rate of event e (same enumeration as the columns of the state-change matrix)",
    "get_ode_eqn": "ode[i] = sum_e rate_e * V[i, e] + explicit terms for i",
    "get_pureOdeVector": "pure[i] = explicit ODE terms for i",
    "get_BirthDeathVector": "birth/death vector = birth and death contributions only",
    "get_TransitionMatrix": "transition matrix [origin, destination] = magnitude * rate of between-state transitions",
    "get_ReactantMatrix": "reactant[i, e] = 1 iff state i takes part in event e",
}


def run_builder(repo, cls, name, d):
    fn = repo.resolve_method(cls, name)
    if fn is None:
        raise AnalysisError("builder %s vanished" % name)
    me = model_obj(d)
    ab = Abs({}, {}, summaries(), me, GETTERS, eq=_eq_hook, budget=200000)
    ab.consts = {"TransitionType": TT, "sympy.S.Zero": A.Rat.const(0), "sympy.S.One": A.Rat.const(1), "S.Zero": A.Rat.const(0), "sympy.Integer(0)": A.Rat.const(0)}
    ab.class_methods = set(repo.all_methods(cls)) | {g for c in repo.mro(cls) for g in c.getters}
    kind, out = ab.run_function(fn.node, {})
    return fn, kind, out, me


def _entries(out, kind):
    """-> rows (list of lists of Rat) of the builder's result"""
    if isinstance(out, SymArr):
        if out.ndim == 2:
            r, c = out.shape
            return [[A.lift(out.flat[i * c + j]) for j in range(c)] for i in range(r)]
        return [[A.lift(x)] for x in out.flat]
    return None


def _fmt(v):
    return repr(v)


def first_diff(got_rows, want, kind):
    if kind == "vec":
        want = [[w] for w in want]
    if got_rows is None:
        return "the result is not a matrix"
    flat_g = [x for r in got_rows for x in r]
    flat_w = [A.lift(x) for r in want for x in r]
    if len(flat_g) != len(flat_w) or (kind == "mat" and want and got_rows and (len(got_rows) != len(want) or len(got_rows[0]) != len(want[0]))):
        return "shape %dx%d, expected %dx%d" % (len(got_rows), len(got_rows[0]) if got_rows else 0, len(want), len(want[0]) if want else 0)
    if kind == "vec" and len(got_rows) != len(want) and not (len(got_rows) == 1 and len(got_rows[0]) == len(want)):
        pass
    idx = 0
    for i, row in enumerate(want):
        for j, w in enumerate(row):
            g = flat_g[idx]
            idx += 1
            if g != A.lift(w):
                where = "[%d]" % i if kind == "vec" else "[%d, %d]" % (i, j)
                return "entry %s is %s, the definition gives %s" % (where, _fmt(g), _fmt(A.lift(w)))
    return None


def check_builders(repo, res, names, rule="R-EFFECT", cls=None):
    cls = cls or M.sim_class(repo)
    n = 0
    for name in names:
        spec_name, kind = BUILDERS[name]
        for d in definitions():
            tag = "%s(%s)" % (name, d.name)
            fn = repo.resolve_method(cls, name)
            try:
                fn, k, out, me = run_builder(repo, cls, name, d)
            except Undecided as e:
                res.undecided(rule, fn, tag, "outside the modelled subset: %s" % e)
                continue
            n += 1
            if k == "raise":
                res.violated(rule, fn, tag, "on the definition `%s` (%s) %s raises %s" % (d.name, d.what, name, out), node=fn.node)
                continue
            want = getattr(d, spec_name)()
            diff = first_diff(_entries(out, kind), want, kind)
            res.check(diff is None, rule, fn, tag, "%s on `%s` (%s)" % (TEXT[name], d.name, d.what),
                      "definition `%s` (%s): %s - %s" % (d.name, d.what, diff, TEXT[name]), node=fn.node)
    return n


def check_closed(repo, res, rule="R-PAIR", cls=None):
    """on a transition-only definition the components of the ODE and every column of the state-change matrix sum to zero identically"""
    cls = cls or M.sim_class(repo)
    d = [x for x in definitions() if x.name == "closed"][0]
    for name, what in (("get_ode_eqn", "the components of the right-hand side"), ("get_StateChangeMatrix", "every column of the state-change matrix")):
        fn = repo.resolve_method(cls, name)
        try:
            fn, k, out, me = run_builder(repo, cls, name, d)
        except Undecided as e:
            res.undecided(rule, fn, "closed-sum(%s)" % name, "outside the modelled subset: %s" % e)
            continue
        rows = _entries(out, BUILDERS[name][1]) if k == "return" else None
        if rows is None:
            res.violated(rule, fn, "closed-sum(%s)" % name, "%s on the closed definition %s" % (name, ("raises %s" % out) if k == "raise" else "does not return a matrix"), node=fn.node)
            continue
        ncol = len(rows[0]) if rows else 0
        sums = [sum((rows[i][j] for i in range(len(rows))), A.Rat.const(0)) for j in range(ncol)]
        bad = [(j, s_) for j, s_ in enumerate(sums) if s_ != A.Rat.const(0)]
        res.check(not bad, rule, fn, "closed-sum(%s)" % name, "for a transition-only model %s sum to zero identically in rates and magnitudes" % what,
                  "for the transition-only definition (%s) %s sum to %s, not to zero: the population is not conserved" % (d.what, what, bad[0][1] if bad else ""), node=fn.node)
