"""Loss kernels end to end, by interpretation on concrete arrays.

Each kernel class is *constructed* by interpreting its real `__init__` (and the base class's, through super())
on concrete arrays (core/numarr.py: numpy's dtype, broadcasting and flatten/ravel semantics re-implemented;
numpy is not imported) for every spread form the property quantifies over - default, python float, python
int, per-observation float array, per-observation integer array, single-column array - and observations of
real and integer type.  Then loss / diff_loss / diff2Loss are interpreted for a flat and a single-column
prediction; scipy.stats log densities and gammaln are replaced by their closed forms.

What is compared is only what the property defines:
    loss      = - sum_i logdensity(y_i ; mean = yhat_i, spread_i)          (Square: sum (w_i (y_i - yhat_i))**2)
    diff_loss = d/dyhat_i of that sum, diff2Loss = the second derivative   (central differences of the *reference*)
"""
import math

from ..core.absint import Abs, Obj, Raised
from ..core.algebra import Undecided
from ..core.numarr import NumArr, num_summaries, emap
from ..rules import model as M

LG = math.lgamma


def ref_logdens(name, y, m, s):
    if name == "Normal":
        return -math.log(s) - math.log(2 * math.pi) / 2 - (y - m) ** 2 / (2 * s * s)
    if name == "Poisson":
        return y * math.log(m) - m - LG(y + 1)
    if name == "Gamma":
        return (s - 1) * math.log(y) - s * y / m - s * math.log(m / s) - LG(s)
    if name == "NegBinom":
        return LG(y + s) - LG(s) - LG(y + 1) + s * math.log(s / (s + m)) + y * math.log(m / (s + m))
    raise KeyError(name)


class _Dist:
    _abs_native = True

    def __init__(self, logf):
        self._logf = logf

    def _log(self, *a, **k):
        return self._logf(*a, **k)

    def _plain(self, *a, **k):
        v = self._logf(*a, **k)
        return emap(lambda x: math.exp(x) if x > -745 else 0.0, v)
    logpdf = logpmf = _log
    pdf = pmf = _plain


class NumStats:
    """scipy.stats by closed forms (the same ones specs/densities.py states)"""
    _abs_native = True

    def __init__(self):
        def lg(v):
            return LG(v) if v > 0 else float("inf")

        def log(v):
            return math.log(v) if v > 0 else (float("-inf") if v == 0 else float("nan"))
        self.norm = _Dist(lambda x, loc=0, scale=1: emap(lambda x_, l_, s_: -log(s_) - math.log(2 * math.pi) / 2 - (x_ - l_) ** 2 / (2 * s_ * s_), x, loc, scale))
        self.poisson = _Dist(lambda k, mu, loc=0: emap(lambda k_, m_: k_ * log(m_) - m_ - lg(k_ + 1), k, mu))
        self.gamma = _Dist(lambda x, a, loc=0, scale=1: emap(lambda x_, a_, s_: (a_ - 1) * log(x_) - x_ / s_ - a_ * log(s_) - lg(a_), x, a, scale))
        self.nbinom = _Dist(lambda k, n, p, loc=0: emap(lambda k_, n_, p_: lg(k_ + n_) - lg(n_) - lg(k_ + 1) + n_ * log(p_) + k_ * log(1 - p_), k, n, p))


def is_ndarray(v):
    return isinstance(v, NumArr)


TYPES = {"np.ndarray": is_ndarray, "numpy.ndarray": is_ndarray, "bool": lambda v: isinstance(v, bool),
         "int": lambda v: isinstance(v, int) and not isinstance(v, bool) or isinstance(v, bool), "float": lambda v: isinstance(v, float),
         "complex": lambda v: isinstance(v, complex), "list": lambda v: isinstance(v, list) and not isinstance(v, NumArr),
         "tuple": lambda v: isinstance(v, tuple), "str": lambda v: isinstance(v, str),
         "numbers.Number": lambda v: isinstance(v, (int, float)), "Number": lambda v: isinstance(v, (int, float))}


def _abs(repo, kcls, me):
    summ = dict(num_summaries())
    ab = Abs({}, dict(TYPES), summ, me, {}, budget=200000)
    ab.consts = {"st": NumStats(), "scipy.stats": NumStats(), "stats": NumStats(), "np.pi": math.pi, "numpy.pi": math.pi, "math.pi": math.pi, "np.e": math.e}
    ab.self_class = (repo, kcls)
    ab.class_methods = set(repo.all_methods(kcls))
    return ab


def construct(repo, name, y, spread_kw):
    kcls = repo.cls(M.M_LOSSTYPE, name)
    init = repo.resolve_method(kcls, "__init__")
    me = Obj("Kernel")
    ab = _abs(repo, kcls, me)
    ab.module = init.module
    ab.cur_cls = init.cls
    args = {"y": y}
    args.update(spread_kw)
    kind, out = ab.run_function(init.node, args)
    return kind, out, me, kcls


def call(repo, kcls, me, method, yhat, **kw):
    f = repo.resolve_method(kcls, method)
    ab = _abs(repo, kcls, me)
    ab.module = f.module
    ab.cur_cls = f.cls
    args = {f.params[1]: yhat}
    args.update(kw)
    return f, ab.run_function(f.node, args)


SPREAD_KW = {"Normal": "sigma", "Gamma": "shape", "NegBinom": "k", "Square": None, "Poisson": None}
DEFAULT_SPREAD = {"Normal": 1.0, "Gamma": 2.0, "NegBinom": 1.0}


def cases(name):
    """(label, y array, constructor keywords, per-observation spread values)"""
    counts = name in ("Poisson", "NegBinom")
    ys = [("real observations", [1.5, 2.0, 4.25])] if not counts else []
    ys.append(("integer observations", [1, 2, 4]))
    if counts:
        ys.append(("integer-valued real observations", [1.0, 2.0, 4.0]))
    kwn = SPREAD_KW[name]
    out = []
    for ylab, y in ys:
        if kwn is None:
            out.append((ylab, y, {}, [None] * 3))
            continue
        forms = [("default spread", None, [DEFAULT_SPREAD[name]] * 3),
                 ("python float spread 1.75", 1.75, [1.75] * 3),
                 ("python int spread 2", 2, [2] * 3),
                 ("python int spread 1", 1, [1] * 3),
                 ("per-observation real spread", NumArr([0.5, 1.5, 2.5]), [0.5, 1.5, 2.5]),
                 ("per-observation integer spread", NumArr([1, 2, 3]), [1, 2, 3]),
                 ("single-column real spread", NumArr([[0.5], [1.5], [2.5]]), [0.5, 1.5, 2.5]),
                 ("single-column integer spread", NumArr([[1], [2], [3]]), [1, 2, 3])]
        for slab, sv, per in forms:
            out.append(("%s, %s" % (ylab, slab), y, ({} if sv is None else {kwn: sv}), per))
    return out


def _close(a, b, tol):
    if isinstance(a, bool) or not isinstance(a, (int, float)):
        return False
    if a != a or b != b:
        return False
    return abs(a - b) <= tol * max(1.0, abs(b))


def _flat(v):
    if isinstance(v, NumArr):
        return v.tolist(), v.shape
    return v, None


def check_kernels(repo, res, names, rule_v="R-NUM(value)", rule_d1="R-NUM(d1)", rule_d2="R-NUM(d2)", tier="quick"):
    """-> number of (kernel, case, method, prediction form) interpretations"""
    n = 0
    points = [[1.2, 2.6, 3.1]] + ([[0.4, 7.5, 2.0], [3.3, 0.9, 11.0]] if tier == "thorough" else [])
    for yhat0 in points:
        n += _check_kernels_at(repo, res, names, rule_v, rule_d1, rule_d2, yhat0, "" if yhat0 == points[0] else "@%s" % (yhat0,))
    return n


def _check_kernels_at(repo, res, names, rule_v, rule_d1, rule_d2, yhat0, suffix):
    n = 0
    for name in names:
        kcls = repo.cls(M.M_LOSSTYPE, name)
        fl = {m: repo.resolve_method(kcls, m) for m in ("loss", "diff_loss", "diff2Loss")}
        bad = {"loss": [], "diff_loss": [], "diff2Loss": []}
        und = None
        done = {"loss": 0, "diff_loss": 0, "diff2Loss": 0}
        for label, y, kw, per in cases(name):
            try:
                kind, out, me, _ = construct(repo, name, NumArr(list(y)), kw)
            except Undecided as e:
                und = "constructing %s(%s): %s" % (name, label, e)
                break
            if kind != "return":
                for m in bad:
                    bad[m].append("%s: the constructor raises %s for valid input" % (label, out))
                continue

            def ref_total(yh):
                if name == "Square":
                    return sum((a - b) ** 2 for a, b in zip(y, yh))
                return -sum(ref_logdens(name, a, b, s) for a, b, s in zip(y, yh, per))
            want = {"loss": ref_total(yhat0), "diff_loss": [], "diff2Loss": []}
            for i in range(3):
                h = 1e-4
                up = list(yhat0); up[i] += h
                dn = list(yhat0); dn[i] -= h
                want["diff_loss"].append((ref_total(up) - ref_total(dn)) / (2 * h))
                want["diff2Loss"].append((ref_total(up) - 2 * ref_total(yhat0) + ref_total(dn)) / (h * h))
            for form, yh in (("flat prediction", NumArr(list(yhat0))), ("single-column prediction", NumArr([[v] for v in yhat0]))):
                for m in ("loss", "diff_loss", "diff2Loss"):
                    if fl[m] is None:
                        continue
                    try:
                        f, (kind, out) = call(repo, kcls, me, m, yh.copy())
                    except Undecided as e:
                        und = "%s.%s(%s; %s): %s" % (name, m, label, form, e)
                        break
                    n += 1
                    done[m] += 1
                    where = "%s, %s" % (label, form)
                    if kind != "return":
                        bad[m].append("%s: raises %s" % (where, out))
                        continue
                    got, shape = _flat(out)
                    if m == "loss":
                        if shape is not None or not _close(got, want[m], 1e-9):
                            bad[m].append("%s: loss = %s, minus the summed reference log-density is %.10g" % (where, got if shape is None else "an array of shape %s" % (shape,), want[m]))
                    else:
                        tol = 1e-6 if m == "diff_loss" else 1e-4
                        if shape != (3,) or not all(_close(a, b, tol) for a, b in zip(got, want[m])):
                            bad[m].append("%s: %s = %s%s, the derivative of the reference is %s" % (where, m, got, "" if shape == (3,) else " (shape %s)" % (shape,), ["%.6g" % v for v in want[m]]))
                if und:
                    break
            if und:
                break
        for m, rule in (("loss", rule_v), ("diff_loss", rule_d1), ("diff2Loss", rule_d2)):
            f = fl[m]
            if f is None:
                continue
            if und:
                res.undecided(rule, f, "constructed-and-evaluated" + suffix, "outside the modelled subset: %s" % und)
                continue
            what = {"loss": "minus the summed reference log-density" if name != "Square" else "the sum of squared residuals",
                    "diff_loss": "the first derivative of the reference loss in each prediction",
                    "diff2Loss": "the second derivative of the reference loss in each prediction"}[m]
            res.check(not bad[m], rule, f, "constructed-and-evaluated" + suffix,
                      "%s.%s, on kernels built by the real constructor for every spread form (scalar, per-observation, integer-typed, single-column) and flat / single-column predictions (%d runs), is %s"
                      % (name, m, done[m], what), "; ".join(bad[m][:2]), node=f.node)
    # the Square loss with observation weights: flat, single-column and integer-typed weight arrays
    if "Square" in names:
        kcls = repo.cls(M.M_LOSSTYPE, "Square")
        f = repo.resolve_method(kcls, "loss")
        y = [1.5, 2.0, 4.25]
        bad, und, k = [], None, 0
        for wl, w in (("flat real weights", NumArr([1.0, 0.5, 2.0])), ("single-column real weights", NumArr([[1.0], [0.5], [2.0]])), ("integer weights", NumArr([1, 2, 1])),
                      ("weights with a zero", NumArr([1.0, 0.0, 2.0]))):
            wv = [float(v) for v in w.ravel().data]
            try:
                kind, out, me, _ = construct(repo, "Square", NumArr(list(y)), {"weights": w})
                if kind != "return":
                    bad.append("%s: the constructor raises %s for valid weights" % (wl, out))
                    continue
                for form, yh in (("flat prediction", NumArr(list(yhat0))), ("single-column prediction", NumArr([[v] for v in yhat0]))):
                    _, (kind, out) = call(repo, kcls, me, "loss", yh)
                    k += 1
                    want = sum((wi * (a - b)) ** 2 for wi, a, b in zip(wv, y, yhat0))
                    if kind != "return" or isinstance(out, NumArr) or not _close(out, want, 1e-9):
                        bad.append("%s, %s: loss = %s, the sum of squared weighted residuals is %.10g" % (wl, form, out.tolist() if isinstance(out, NumArr) else out, want))
            except Undecided as e:
                und = "%s: %s" % (wl, e)
                break
        for wl, w in (("a negative weight", NumArr([1.0, -0.5, 2.0])), ("all weights zero", NumArr([0.0, 0.0, 0.0]))):
            try:
                kind, out, me, _ = construct(repo, "Square", NumArr(list(y)), {"weights": w})
                k += 1
                if kind != "raise":
                    bad.append("%s is accepted" % wl)
            except Undecided as e:
                und = "%s: %s" % (wl, e)
        n += k
        if und:
            res.undecided(rule_v, f, "weighted" + suffix, "outside the modelled subset: %s" % und)
        else:
            res.check(not bad, rule_v, f, "weighted" + suffix, "Square.loss with observation weights (flat, single-column, integer-typed, with a zero) is the sum of squared weighted residuals; "
                      "negative and all-zero weights are refused (%d runs)" % k, "; ".join(bad[:2]), node=f.node)
    return n
