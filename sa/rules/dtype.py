"""R-DTYPE: an array that will hold real-valued results must not take its dtype from user
data that may be integer typed (counts, integer initial states): np.*_like(data) without an
explicit floating dtype, dtype=data.dtype, .astype(data.dtype).  Numpy then truncates every
value stored into it without any error."""
import ast

from ..core.source import norm, dotted, walk_no_nested, kwarg
from ..core.dataflow import dataflow_of
from ..core.cfg import cfg_of

LIKE = ("empty_like", "zeros_like", "ones_like", "full_like")
FLOAT_DTYPES = ("float", "np.float64", "np.float32", "np.float_", "'float'", "'float64'", "np.double", "'d'", "'f8'", "np.longdouble", "complex")


def _is_float_dtype(e):
    return e is not None and norm(e) in FLOAT_DTYPES


def inheriting_allocations(func, is_data):
    """[(call, source expr)] of allocations in func whose dtype comes from an expression for which
    is_data(expr, dataflow, cfg node) is true"""
    out = []
    cfg, df = cfg_of(func), dataflow_of(func)
    for n in cfg.stmt_nodes():
        for e in df.node_exprs(n):
            for c in walk_no_nested(e):
                if not isinstance(c, ast.Call):
                    continue
                dn = dotted(c.func) or ""
                last = dn.split(".")[-1]
                dt = kwarg(c, "dtype")
                if last in LIKE and dn.split(".")[0] in ("np", "numpy") and c.args:
                    if dt is None and is_data(c.args[0], df, n):
                        out.append((c, c.args[0]))
                    elif dt is not None and isinstance(dt, ast.Attribute) and dt.attr == "dtype" and is_data(dt.value, df, n):
                        out.append((c, dt.value))
                elif last in ("empty", "zeros", "ones", "full", "array", "asarray", "arange") and dt is not None \
                        and isinstance(dt, ast.Attribute) and dt.attr == "dtype" and is_data(dt.value, df, n):
                    out.append((c, dt.value))
                elif last == "astype" and c.args and isinstance(c.args[0], ast.Attribute) and c.args[0].attr == "dtype" and is_data(c.args[0].value, df, n):
                    out.append((c, c.args[0].value))
    return out
