"""What MANIFEST.json claims, per property (tools/manifest.py renders it)."""

ENGINES = [
    {"name": "sa", "path": "/verif/sa",
     "serves_properties": [],
     "kind_free_text": "custom static analyser over python ast: abstract interpreter with inlining of package helpers and models of numpy/scipy objects (E8), source model + resolver (E1), statement CFG with "
                       "dominators (E2), reaching definitions / provenance (E3), effect tables (E4), index-space and "
                       "layout typing (E5), polynomial canonical forms (E6), thin-wrapper normal form (E7)"},
]

_TB = ("python ast gives the program that runs; sympy/numpy/scipy behave as documented; reference tables in "
       "sa/specs written by hand; users go through public methods")

CLAIMED = {
    "C08": {
        "technique": ('static analysis by abstract interpretation of the syntax tree (nothing of /repo is imported or run): the '
                     'evaluator protocol (add_func / add_compiled_sympy_object, helpers inlined from their own source) is '
                     'played on every history of <= 4 steps over {evaluate ode, evaluate another evaluator, modify the model, '
                     "add a parameter, assign parameter values} against 'what a freshly built model returns'; call-graph "
                     'closure of definition-state writers (helpers called only from generators belong to the generators) + CFG must-pass-through of trip(); registry/canary agreement; the flag class itself interpreted on all histories of <= 3 operations (trip, reset, flag = False, flag = True) over two objects sharing class-level attributes; '
                     'cache-refresh dominance; all sequences of three parameter assignments'),
        "level": ('Decides, for all histories up to the stated length, that no evaluator returns a value compiled from an '
                     'earlier definition, symbol order or parameter values; for all histories at once, that every write to '
                     '(computed) model-definition state reaches trip() on every normal exit, that every registered evaluator '
                     'has a flag in the operative canary, that the flag object follows its protocol (new/tripped: all set; reset and `= False` clear exactly one flag of one object; `= True` sets nothing; objects independent; names that contain one another are distinct), that generators refresh the caches they read. Does not '
                     'decide that the regenerated expression is compiled correctly (library).'),
        "note": _TB,
    },
    "C19": {
        "technique": ('static analysis by abstract interpretation of the syntax tree (nothing of /repo is imported or run): '
                     'every d/p/q/r helper is interpreted under all flag scenarios (log, seed in {None, 0, 1, int}, n=1/n>1) '
                     'against recording models of scipy.stats distributions and numpy generators; the recorded library call '
                     "(object, method, bound arguments as rational functions) is compared with R's parameterisation; "
                     'closed-form densities compared with references as polynomials over log/lgamma atoms; declared-parameter '
                     'use'),
        "level": "Decides for every d/p/q/r helper, on every flag path (log, seed None/int, n=1/n>1), which scipy/numpy "
                 "routine is called with which arguments, and compares with R's parameterisation (scale=1/rate etc.); "
                 "decides that seeded generators draw from test_seed(seed); proves nb2pmf == NB(n=k,p=k/(k+mu)) and "
                 "gamma_mu_shape == Gamma(a, scale=mu/a) as identities of canonical forms. Does not decide scipy's numerics.",
        "note": _TB + "; spec table sa/specs/utilr.py",
    },
    "C02": {
        "technique": ('static analysis by abstract interpretation of the syntax tree (nothing of /repo is imported or run): '
                     'integrateFuncJac, integrate and integrate2 (helpers inlined) are interpreted against a model of '
                     "scipy.integrate.ode / odeint written from scipy's interface (exact flow of a test problem, state buffer "
                     "updated in place, evaluators called with the library's argument order) over all grid forms x "
                     'includeOrigin x full_output x methods x eigenvalue schedules x integer/float x0; at every integrateFuncJac call site the two callables handed over are evaluated and '
                     'called as scipy.integrate.ode calls them - f(t, y), jac(t, y) - on vectors of symbols and compared with the model\'s right-hand sides and their own Jacobian routines at (y, t); '
                     'every time-first twin X_T is compared with X for the same roles; shape inference of the jacobian evaluator; about 800 histories [solve, assign '
                     'initial state / time / values / parameters in several forms (real setters interpreted), solve again] on one model object; sibling agreement of the internal step budget configured for odeint and scipy.integrate.ode'),
        "level": ("Decides the repo-owned half of 'one row per requested time, in order, origin first, each row the solution "
                     "at its own time': with an exact model integrator the rows must equal the exact flow at the requested "
                     'times (so buffer aliasing, dropped/duplicated/shifted rows, restarts from the wrong time, dtype '
                     "truncation and wrong grids all show), integrators are set up with existing scipy names, the caller's "
                     "functions, tolerances and step budget, a failed step raises; for all histories up to the stated length a solve returns the solution of the model as it stands (no stale stored result), and all entry points allow their library integrator the same number of internal steps per output interval. Does not decide that scipy's integrators are "
                     'accurate.'),
        "note": _TB,
    },
    "C01": {
        "technique": ('static analysis by abstract interpretation of the syntax tree (nothing of /repo is imported or run): the '
                     'seven symbolic builders are interpreted (sympy replaced by matrices of canonical rational functions, '
                     'checkEquation by the identity on symbols) on enumerated model definitions (1..3 B/D/T members per event, '
                     'shared states, literal and symbolic magnitudes, explicit terms, one-state / one-event shapes) and '
                     'compared entry by entry, as polynomial identities in the rate and magnitude symbols, with V, rates, ode = '
                     'V*rates + explicit terms, reactant matrix; compileExprAndFormat interpreted for every (shape, output '
                     'type, back-end); every legacy route (add_transition / add_birth_death / add_event) interpreted into the event list the builders read; '
                     'checkEquation / _addDerivedParam interpreted (exec, eval and formatted source text reconstructed; polynomial substitution) on derived parameters defined through others; '
                     'argument assembly interpreted; namespace rule; shape inference'),
        "level": ('Decides that each builder returns exactly the matrices the property defines on every enumerated '
                     'definition class (any rewriting that computes the same matrices is accepted), that symbols and values '
                     'share the order (states,t,params) with values placed by name, that derived parameters are substituted for '
                     'all entries, that matrix output is not flattened and explicit output types are respected. Does not decide '
                     'sympy parsing or compiled-code numerics.'),
        "note": _TB,
    },
    "C04": {
        "technique": ('static analysis by abstract interpretation of the syntax tree (nothing of /repo is imported or run): '
                     'SimulateOde._jump and everything it calls (firstReaction, tauLeap, _checkJump, _newJumpTimes, '
                     "_updateStateWithJump, the adaptive step rule, rexp/rpois down to numpy's samplers) is interpreted on "
                     'small concrete models with scripted stand-ins for the random draws and compared record by record (states, '
                     'per-step counts, times, steps; two consecutive runs per scenario) with the walk the property defines; '
                     'finite evaluation of the limit test over all bound shapes; shape inference of vMat'),
        "level": ('Decides on every scenario (exact / fixed tau / adaptive tau; default, upper, two-sided, raised lower '
                     'limits; zero-rate events; one state / one event; drift; integer and float initial states; rejected leaps '
                     'with successful and failing fall-back; extinction; horizon) that the recorded path is exactly the legal '
                     'walk: start at (x0,t0), strictly increasing times, one-hot / Poisson counts, state change = V x counts (+ '
                     'drift*tau), rejected steps change nothing. Does not decide positivity/integrality of numpy draws.'),
        "note": _TB,
    },
    "C05": {
        "technique": ('static analysis by abstract interpretation of the syntax tree (nothing of /repo is imported or run): '
                     'exact-mode runs of _jump interpreted with scripted exponential draws and compared with the first-reaction '
                     'walk (one clock of mean 1/rate per positive-rate event, earliest fires, time advances by that clock); '
                     'rexp interpreted against a recording generator (scale = 1/rate); last-event look-up interpreted on '
                     'concrete grids'),
        "level": ('Decides the premises under which the first-reaction method samples the CTMC law (own rate per clock, '
                     'reciprocal scale, argmin shared by event choice and time increment, no rescaling); the law itself (a '
                     'statistical statement about runs) is not decided.'),
        "note": _TB + "; first-reaction theorem (Gillespie 1976)",
    },
    "C10": {
        "technique": ('static analysis by abstract interpretation of the syntax tree (nothing of /repo is imported or run): ODE '
                     'and state-change-matrix builders interpreted on enumerated definitions incl. a closed multi-member model '
                     '(column sums and component sum identically zero as polynomial identities); simulated paths interpreted '
                     'against the reference walk (every state = previous + V x counts)'),
        "level": "Structural proof that for transition-only models the ODE components and every state-change column sum "
                 "to zero identically (for all rates and magnitudes), and that stochastic paths move only by such columns. "
                 "Deterministic conservation 'within solver tolerance' is not decided.",
        "note": _TB,
    },
    "C11": {
        "technique": ('static analysis by abstract interpretation of the syntax tree (nothing of /repo is imported or run): '
                     '_checkJump evaluated on 60 (position, limit shape, value) cases; _jump interpreted on models with upper, '
                     'two-sided and raised lower limits (exact, fixed and adaptive tau) against the limit-respecting reference '
                     'walk; the constructor\'s declaration routine with the real state_list setter interpreted on declaration forms incl. range-style names and '
                     'states added after construction'),
        "level": "Decides that a step is rejected iff it leaves a present bound, for every state; that rejection returns "
                 "the old state/time; that only accepted states are recorded; that failure of the fall-back ends the run; "
                 "that undeclared limits default to (0, None) and that the limit list handed to the steppers has one entry per state, each state's own declaration's limits at its own index. The initial state being inside the limits is user input.",
        "note": _TB,
    },
    "C09": {
        "technique": "static analysis: intra-procedural abstract execution of the `parameters` setter over the completely "
                     "enumerated accepted input forms (3-parameter abstract model: ordered list/tuple/array, (name,value) "
                     "pairs in all 6 orders, dicts keyed by name or symbol in all orders, 18 partial updates, 25 successive "
                     "format pairs, rejections), with helper summaries verified on the helpers' own source",
        "level": "Decides that in every accepted form the value list read by the compiled evaluators holds, at the index "
                 "of each parameter, the value supplied for that parameter's name; that partial updates keep the rest; "
                 "that unknown names / wrong lengths raise. Exhaustive over the abstract input classes, not sampled.",
        "note": _TB + "; abstract values are opaque tokens, control data concrete",
    },
    "C12": {
        "technique": ('static analysis by abstract interpretation of the syntax tree (nothing of /repo is imported or run): '
                     'Transition.__init__ (with its real helpers), Event.__init__, '
                     'add_transition/add_event/add_birth_death/add_ode and the list setters interpreted over completely '
                     'enumerated abstract input classes; equality of the normalised event descriptor across API routes; '
                     'builders interpreted on enumerated definitions for order independence'),
        "level": "Decides that every route (Event, Transition with own rate, legacy lists, birth by origin or destination) "
                 "normalises a T/B/D process to the same (rate, type, origin, destination, magnitude); that Event accepts "
                 "iff exactly one rate is supplied and keeps it; that setters delegate all listed processes in order (also processes that differ only in magnitude, a process listed twice, and lists assigned to a model that already holds a process), that the constructor hands every keyword list to the setter of its own kind; that both "
                 "declaration helpers split strings identically; that builders accumulate additively.",
        "note": _TB,
    },
    "C06": {
        "technique": "static analysis by abstract interpretation of the syntax tree (nothing of /repo is imported or run): argument binding of the integrator call in _getSolution; abstract execution of the "
                     "name->index helpers (14 name orders) and of _setParam/_setParamStateInput/_unrollState over enumerated "
                     "target subsets; every loss class constructed by interpreting its own __init__ through super() into BaseLoss.__init__ and back into its "
                     "_setLossType with recording kernel classes (positional and keyword calls); _setX0 interpreted on array / list / tuple input with an aliasing probe",
        "level": "Decides row/observation matching (integration exactly at the copied observation times, no origin row), "
                 "column selection in the supplied state order, that theta[i] goes to target_param[i] and state values to "
                 "their named states in all cases, that each loss class ends up holding the kernel named after it, built on the caller's observations, the broadcast of the caller's weights and (where it has one) spread, with theta, x0, t0, t and the model forwarded unchanged, and that the stored initial state does not share memory with the caller's array. "
                 "Does not decide the numerical value of the loss or zero cost at the generating parameters.",
        "note": _TB,
    },
    "C15": {
        "technique": ('static analysis by abstract interpretation of the syntax tree (nothing of /repo is imported or run): '
                     '_addJumpsBetweenTime interpreted on concrete event records (even/uneven grids, grids longer/shorter than '
                     'the path, exact and tau counts) with a histogram model; last-event look-up and time-argument handling '
                     'interpreted over all accepted grid forms; solve_stochast interpreted end to end on scripted concrete paths (overshooting, dying out '
                     'inside the grid, single event; list/tuple/array grids, scalar horizons, exact and tau-leap); simulated paths against the reference walk'),
        "level": "Decides that per-interval counts are per transition (column i from column i of the jump record, event "
                 "times without the initial time, target grid as bins), that the look-up returns the state at the last event "
                 "time <= each target in order, and that whole gridded runs return, for every scripted path, the path's state at each requested time, the path's per-interval event counts "
                 "and rows that differ by V x counts. That _jump produces a correct path is C04's.",
        "note": _TB + "; numpy histogram/searchsorted/where semantics as documented",
    },
    "C16": {
        "technique": ('static analysis by abstract interpretation of the syntax tree (nothing of /repo is imported or run): two '
                     'consecutive runs of _jump on one model object with one scripted random stream must both be the reference '
                     "walk and all draws must come from numpy's global generator; the parameters setter interpreted on "
                     'frozen-distribution and (sampler, args) inputs over repeated assignments with negative/zero/positive '
                     'draws; interprocedural reachability of local generators with constant propagation (seed=None, '
                     'parallel=False) and a positive control; simulate_param / solve_determ interpreted with a recording integrator for 1..257 iterations: '
                     'the mean against the element-wise mean of exactly the returned runs'),
        "level": "Decides that serial runs can only draw through numpy's global generator (so a global seed fixes the "
                 "stream), that each run starts from a copy of the initial state and no stepper mutates its input, and "
                 "that the reported mean equals the element-wise mean of exactly the runs returned beside it (for the iteration counts interpreted, incl. counts beyond any block size). 'Different seeds differ' is "
                 "a statement about numpy and is not decided.",
        "note": _TB,
    },
    "C17": {
        "technique": ('static analysis by abstract interpretation of the syntax tree (nothing of /repo is imported or run): '
                     'ABC.__init__, get_posterior_sample, continue_posterior_sample, _perform_generation, get_tolerance and '
                     '_log_parameters are interpreted as whole runs (rejection, SMC list / quantile, nearest neighbours, '
                     'continued, legacy sampler) on abstract inference problems with scripted proposal streams (outside '
                     'support, back-transform inside/outside, cost above / exactly at / below tolerance) and a known cost; the '
                     "stored posterior is checked against the property's own statement"),
        "level": ('Decides on every interpreted run that each stored particle has positive prior density, that its stored '
                     "distance equals the cost recomputed at it (loss object's order, log-scale components back-transformed) "
                     "and is below its generation's tolerance, that weights are positive and finite, that the schedule is the "
                     'documented one, never increases under quantile scheduling and cannot be raised by a continuation; '
                     'admissible proposals are not rejected for ever. Cost reproducibility itself needs C02.'),
        "note": _TB,
    },
    "C18": {
        "technique": ('static analysis by abstract interpretation of the syntax tree (nothing of /repo is imported or run): '
                     'BaseLoss.fit interpreted up to the optimiser call on the concrete array model (values, dtype and casting '
                     'as numpy documents) incl. mixed int/float, 0, inf and one-sided bounds; inspection of the recorded '
                     'minimize() arguments; constructor interpreted on 11 name-order combinations'),
        "level": "Decides only the repo-owned wiring: bounds row i = (lb[i], ub[i]) for box, one-sided and absent bounds; "
                 "objective/gradient from the same object; start = caller's x; bounded method; mismatched lengths rejected. "
                 "Feasibility and descent of L-BFGS-B/SLSQP are trusted, not decided.",
        "note": _TB + "; scipy.optimize.minimize signature",
    },
    "C03": {
        "technique": "static analysis: interpretation of the seven symbolic derivative builders with sympy replaced by a "
                     "formal derivative operator over opaque atoms at four small shapes; entry-wise identity against the "
                     "declared row/column order; refresh tracking; shape inference",
        "level": "Decides which component is differentiated w.r.t. which symbol and where it is stored (jacobian, grad, "
                 "diff_jacobian, grad_jacobian, and the Cao et al. rate-change statistics), that each builder rebuilds what it "
                 "differentiates, and that matrix evaluators keep two dimensions. sympy's diff and the compiled numerics are trusted.",
        "note": _TB,
    },
    "C07": {
        "technique": "static analysis by abstract interpretation of the syntax tree (nothing of /repo is imported or run): BaseLoss's column-selection and chain-rule routines interpreted over arrays of "
                     "symbols (numpy view semantics modelled) for 105 orders of target parameters / observed states / target states; argument binding of the "
                     "sensitivity integrations; BaseLoss.__init__ interpreted on concrete integer- and real-typed observation times for the solver grid of the derivative paths",
        "level": "Decides that gradient component o is the chain rule over the sensitivity columns of free variable o, in the "
                 "order the free variables were supplied, parameters first then initial values, evaluated on the same "
                 "integration; that the integrations start from zeros/identity with matching (func, jac), and that they run over the caller's start time and observation times (the trajectory the cost is computed on). Together with C13 "
                 "(layout of the integrated system) and C14 (diff_loss) this is the repo-owned part of 'gradient = derivative of "
                 "cost'; the integrator's numerics are not decided.",
        "note": _TB,
    },
    "C13": {
        "technique": "static analysis: interpretation of the sensitivity right-hand sides and their Jacobians over arrays of "
                     "symbols at five small shapes, with numpy reshape/kron/dot/bmat semantics re-implemented in the checker; "
                     "entry-wise polynomial identity against the variational equations in the documented layout",
        "level": "Decides that the augmented systems evaluate to [f; vec(JS+G); vec_F(J IV)] in the documented layout for "
                 "both arrangements and that the supplied Jacobians are the derivatives of those systems (blocks J, H.S+GJ, "
                 "I(x)J), at shapes (2,3),(3,2),(1,2),(2,1),(3,3),(2,0). One known finding: the by_state=True Jacobian. Matching "
                 "finite differences of solutions (solver numerics) is not decided.",
        "note": _TB + "; fixed small shapes (layout errors are dimension-generic and show at non-square shapes)",
    },
    "C14": {
        "technique": "static analysis by abstract interpretation of the syntax tree (nothing of /repo is imported or run): the kernels' straight-line numpy code brought to canonical rational "
                     "functions over log/lgamma atoms with helper inlining; polynomial identity against reference "
                     "log-densities; structural differentiation; and each kernel constructed by interpreting its real constructors on concrete arrays "
                     "(re-implemented numpy dtype / broadcasting semantics) for every spread form (default, python int/float, per-observation real and integer arrays, "
                     "single column) and evaluated for flat and single-column predictions against the reference density and its central differences",
        "level": "Proves as identities of canonical forms, for all y, yhat, spread in the positive domain, that each loss is "
                 "minus the summed reference log-density (Square: sum of squared weighted residuals) and that diff_loss / "
                 "diff2Loss are the first / second derivatives of the unweighted loss; and on constructed kernels at concrete points that spread broadcasting, integer-typed inputs and "
                 "single-column inputs give the same values. Floating-point accuracy far from the sample points is not decided.",
        "note": _TB + "; reference table sa/specs/densities.py",
    },
    "C20": {
        "technique": "static analysis by abstract interpretation of the syntax tree (nothing of /repo is imported or run): sens_to_jtj, eval_forwardforward and BaseLoss.hessian interpreted over arrays of "
                     "symbols with numpy's view semantics (in-place weighting through reshaped views), unit and symbolic observation weights, full_output False and True; entry-wise polynomial identity against the Gram form and the second-order variational equations",
        "level": "Decides that jtj is the Gram matrix of the weighted target sensitivities (hence symmetric PSD), that the "
                 "terms of the second-order system that are present are right, and that hessian = 2 JTJ + sum diff_loss * "
                 "second-order sensitivities at the theta handed in, independent of full_output, over the caller's time grid. One known finding: the mixed terms of the second-order system are missing.",
        "note": _TB,
    },
}

NOT_APPLICABLE = {}
for _e in ENGINES:
    _e["serves_properties"] = sorted(CLAIMED)
