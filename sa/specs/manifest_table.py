"""What MANIFEST.json claims, per property (tools/manifest.py renders it)."""

ENGINES = [
    {"name": "sa", "path": "/verif/sa",
     "serves_properties": [],
     "kind_free_text": "custom static analyser over python ast: source model + resolver (E1), statement CFG with "
                       "dominators (E2), reaching definitions / provenance (E3), effect tables (E4), index-space and "
                       "layout typing (E5), polynomial canonical forms (E6), thin-wrapper normal form (E7)"},
]

_TB = ("python ast gives the program that runs; sympy/numpy/scipy behave as documented; reference tables in "
       "sa/specs written by hand; users go through public methods")

CLAIMED = {
    "C08": {
        "technique": "static analysis: call-graph closure of definition-state writers + CFG must-pass-through of trip(); "
                     "registry/canary set agreement; truth table of the recompile guard; cache-refresh dominance",
        "level": "Decides, for all histories at once, the structural necessary conditions of freshness: every write to "
                 "(computed) model-definition state reaches trip() on every normal exit; every registered evaluator has a "
                 "flag in the operative canary; the evaluator closure recompiles whenever its flag is set; the recompile "
                 "routine regenerates, stores, trips-if-master and resets its own flag; generators refresh the caches they "
                 "read and return no memo; no construction-time snapshot of definition state survives. Does not decide "
                 "that the regenerated expression is compiled correctly (library).",
        "note": _TB,
    },
    "C19": {
        "technique": "static analysis: abstract execution of each thin wrapper under all flag scenarios; callee and "
                     "argument normal forms (rational-function canonical forms) compared with a spec table; closed-form "
                     "densities compared with references as polynomials over log/lgamma atoms; declared-parameter use",
        "level": "Decides for every d/p/q/r helper, on every flag path (log, seed None/int, n=1/n>1), which scipy/numpy "
                 "routine is called with which arguments, and compares with R's parameterisation (scale=1/rate etc.); "
                 "decides that seeded generators draw from test_seed(seed); proves nb2pmf == NB(n=k,p=k/(k+mu)) and "
                 "gamma_mu_shape == Gamma(a, scale=mu/a) as identities of canonical forms. Does not decide scipy's numerics.",
        "note": _TB + "; spec table sa/specs/utilr.py",
    },
    "C02": {
        "technique": "static analysis: taint of the integrator buffer .y with copy sanitisers and one level of callee "
                     "summaries; CFG path counting of appends per loop iteration; slice/argument agreement of the grid "
                     "hand-over; func/jac pairing and parameter-name agreement at call sites; literal table agreement of "
                     "integrator names; shape inference of the jacobian evaluator",
        "level": "Decides the repo-owned half of 'one row per requested time, in order, origin first': no aliasing of "
                 "the integrator buffer into the rows, exactly one append per loop iteration on every path, t0 prepended, "
                 "t[0]/t[1:] hand-over, correct (func, jac) pairs with the orientation scipy expects, integrator table. "
                 "Does not decide that a row equals the true solution to tolerance (scipy's integrators).",
        "note": _TB,
    },
    "C01": {
        "technique": "static analysis: effect tables of the five sibling builders per transition type with canonical "
                     "values over MAG/RATE atoms; same-value opposite-sign pairing; accumulator summation as a polynomial "
                     "identity; role sequences of symbol/value lists; shape inference of registered evaluators",
        "level": "Decides term by term, for all models at once, that each builder applies B:{+dest} D:{-orig} "
                 "T:{-orig,+dest} with magnitude*rate (ODE) / magnitude (state-change matrix) in the event's own column, "
                 "that the rate vector uses the same enumeration, that all accumulators are summed, that symbols and "
                 "values share the order (states,t,params) with values placed by name, that derived parameters are "
                 "substituted for all entries, and that matrix output is not flattened. Together: ODE = V*a + explicit "
                 "terms symbolically. Does not decide sympy parsing or compiled-code numerics.",
        "note": _TB,
    },
    "C04": {
        "technique": "static analysis: typestate/dominance over the CFG of SimulateOde._jump (a state is recorded only "
                     "under a positive success test; failure ends the run), provenance of recorded values to stepper "
                     "result slots, abstract evaluation of the per-event tau step and of the limit test, arity agreement, "
                     "shape inference of vMat",
        "level": "Decides that a recorded state can only be x + V[:,k]*n (+drift) that passed _checkJump, that counts "
                 "reported equal counts applied (same index, same draw; one-hot in exact mode), that t_new = t + dt on "
                 "success and nothing changes on failure, that vMat is a matrix for every model size, and that stepper "
                 "returns have the arity their callers unpack (three named, unreachable exceptions). Does not decide "
                 "positivity/integrality of numpy draws or termination time.",
        "note": _TB,
    },
    "C05": {
        "technique": "static analysis: premises of the first-reaction theorem as data-flow facts (own rate in rexp's rate "
                     "slot under r>0, scale=1/rate, argmin index shared by event choice and time increment)",
        "level": "Decides only the three structural premises under which the first-reaction method samples the CTMC law; "
                 "the law itself (a statistical statement about runs) is not decided.",
        "note": _TB + "; first-reaction theorem (Gillespie 1976)",
    },
    "C10": {
        "technique": "static analysis: same-value/opposite-sign pairing in the T-branch of the ODE and state-change-matrix "
                     "builders, additive accumulation, column-update-only provenance of the simulated state",
        "level": "Structural proof that for transition-only models the ODE components and every state-change column sum "
                 "to zero identically (for all rates and magnitudes), and that stochastic paths move only by such columns. "
                 "Deterministic conservation 'within solver tolerance' is not decided.",
        "note": _TB,
    },
    "C11": {
        "technique": "static analysis: finite abstract evaluation of the limit test over all (lower, upper) shapes x "
                     "{below, inside, above}; typestate of the success flag over the CFG of _jump and the steppers; "
                     "default-limit data flow",
        "level": "Decides that a step is rejected iff it leaves a present bound, for every state; that rejection returns "
                 "the old state/time; that only accepted states are recorded; that failure of the fall-back ends the run; "
                 "that undeclared limits default to (0, None). The initial state being inside the limits is user input.",
        "note": _TB,
    },
    "C09": {
        "technique": "static analysis: intra-procedural abstract execution of the `parameters` setter over the completely "
                     "enumerated accepted input forms (3-parameter abstract model: ordered list/tuple/array, (name,value) "
                     "pairs in all 6 orders, dicts keyed by name or symbol in all orders, 18 partial updates, 25 successive "
                     "format pairs, rejections), with helper summaries verified on the helpers' own source",
        "level": "Decides that in every accepted form the value list read by the compiled evaluators holds, at the index "
                 "of each parameter, the value supplied for that parameter's name; that partial updates keep the rest; "
                 "that unknown names / wrong lengths raise. Exhaustive over the abstract input classes, not sampled.",
        "note": _TB + "; abstract values are opaque tokens, control data concrete",
    },
    "C12": {
        "technique": "static analysis: intra-procedural abstract execution of Event.__init__, Transition.__init__, "
                     "add_transition/add_event/add_birth_death/add_ode and the list setters over completely enumerated "
                     "abstract input classes; equality of the normalised event descriptor across API routes; effect tables "
                     "for order independence",
        "level": "Decides that every route (Event, Transition with own rate, legacy lists, birth by origin or destination) "
                 "normalises a T/B/D process to the same (rate, type, origin, destination, magnitude); that Event accepts "
                 "iff exactly one rate is supplied and keeps it; that setters delegate all elements in order; that both "
                 "declaration helpers split strings identically; that builders accumulate additively.",
        "note": _TB,
    },
    "C06": {
        "technique": "static analysis: argument binding of the integrator call in _getSolution; abstract execution of the "
                     "name->index helpers (14 name orders) and of _setParam/_setParamStateInput/_unrollState over enumerated "
                     "target subsets; constructor -> BaseLoss -> kernel wiring by parameter binding",
        "level": "Decides row/observation matching (integration exactly at the copied observation times, no origin row), "
                 "column selection in the supplied state order, that theta[i] goes to target_param[i] and state values to "
                 "their named states in all cases, and that each loss class builds its own kernel from (y, weights, spread). "
                 "Does not decide the numerical value of the loss or zero cost at the generating parameters.",
        "note": _TB,
    },
    "C15": {
        "technique": "static analysis: loop-variable dependence of the stored column and histogram-argument agreement "
                     "(R-LOOPDEP); abstract execution of the last-event look-up over hit/between/before/after targets and of "
                     "solve_stochast's time-argument handling over list/tuple/array/scalar x exact/tau",
        "level": "Decides that per-interval counts are per transition (column i from column i of the jump record, event "
                 "times without the initial time, target grid as bins), that the look-up returns the state at the last event "
                 "time <= each target in order, and that gridded runs route states/counts/grid through these routines with "
                 "the right argument roles. Numerical identity rows = V x counts follows with C04 and is not re-decided.",
        "note": _TB + "; numpy histogram/searchsorted/where semantics as documented",
    },
    "C16": {
        "technique": "static analysis: interprocedural reachability with constant propagation (seed=None, parallel=False) "
                     "and branch pruning against a catalogue of generator constructors, with a positive control on the "
                     "parallel branch; in-place mutation scan; same-object data flow between mean and returned list",
        "level": "Decides that serial runs can only draw through numpy's global generator (so a global seed fixes the "
                 "stream), that each run starts from a copy of the initial state and no stepper mutates its input, and "
                 "that the reported mean is over the returned list along the stacking axis. 'Different seeds differ' is "
                 "a statement about numpy and is not decided.",
        "note": _TB,
    },
    "C17": {
        "technique": "static analysis: CFG dominance of the accepting exit by the prior-support and strict tolerance tests, "
                     "producer/consumer tuple-slot agreement, abstract execution of the tolerance schedule, sibling agreement "
                     "of parameter-order derivation",
        "level": "Decides that a particle can only be stored after density-product>0 and cost<tolerance with cost evaluated "
                 "at (a copy of) that particle in model order; that weight/particle/distance land in w[i]/res[i]/dist[i]; "
                 "that the schedule is supplied/quantile-of-stored-distances/list and continuation cannot raise it. Weight "
                 "finiteness and np.quantile monotonicity are not decided.",
        "note": _TB,
    },
    "C18": {
        "technique": "static analysis: abstract execution of BaseLoss.fit up to the optimiser call with numpy packing "
                     "semantics on token lists; inspection of the recorded minimize() arguments",
        "level": "Decides only the repo-owned wiring: bounds row i = (lb[i], ub[i]) for box, one-sided and absent bounds; "
                 "objective/gradient from the same object; start = caller's x; bounded method; mismatched lengths rejected. "
                 "Feasibility and descent of L-BFGS-B/SLSQP are trusted, not decided.",
        "note": _TB + "; scipy.optimize.minimize signature",
    },
    "C03": {
        "technique": "static analysis: interpretation of the seven symbolic derivative builders with sympy replaced by a "
                     "formal derivative operator over opaque atoms at four small shapes; entry-wise identity against the "
                     "declared row/column order; refresh tracking; shape inference",
        "level": "Decides which component is differentiated w.r.t. which symbol and where it is stored (jacobian, grad, "
                 "diff_jacobian, grad_jacobian, and the Cao et al. rate-change statistics), that each builder rebuilds what it "
                 "differentiates, and that matrix evaluators keep two dimensions. sympy's diff and the compiled numerics are trusted.",
        "note": _TB,
    },
    "C07": {
        "technique": "static analysis: interpretation of BaseLoss's column-selection and chain-rule routines over arrays of "
                     "symbols for 105 orders of target parameters / observed states / target states; argument binding of the "
                     "sensitivity integrations",
        "level": "Decides that gradient component o is the chain rule over the sensitivity columns of free variable o, in the "
                 "order the free variables were supplied, parameters first then initial values, evaluated on the same "
                 "integration; and that the integrations start from zeros/identity with matching (func, jac). Together with C13 "
                 "(layout of the integrated system) and C14 (diff_loss) this is the repo-owned part of 'gradient = derivative of "
                 "cost'; the integrator's numerics are not decided.",
        "note": _TB,
    },
    "C13": {
        "technique": "static analysis: interpretation of the sensitivity right-hand sides and their Jacobians over arrays of "
                     "symbols at five small shapes, with numpy reshape/kron/dot/bmat semantics re-implemented in the checker; "
                     "entry-wise polynomial identity against the variational equations in the documented layout",
        "level": "Decides that the augmented systems evaluate to [f; vec(JS+G); vec_F(J IV)] in the documented layout for "
                 "both arrangements and that the supplied Jacobians are the derivatives of those systems (blocks J, H.S+GJ, "
                 "I(x)J), at shapes (2,3),(3,2),(1,2),(2,1),(3,3),(2,0). One known finding: the by_state=True Jacobian. Matching "
                 "finite differences of solutions (solver numerics) is not decided.",
        "note": _TB + "; fixed small shapes (layout errors are dimension-generic and show at non-square shapes)",
    },
    "C14": {
        "technique": "static analysis: interpretation of the kernels' straight-line numpy code into canonical rational "
                     "functions over log/lgamma atoms with helper inlining; polynomial identity against reference "
                     "log-densities; structural differentiation",
        "level": "Proves as identities of canonical forms, for all y, yhat, spread in the positive domain, that each loss is "
                 "minus the summed reference log-density (Square: sum of squared weighted residuals) and that diff_loss / "
                 "diff2Loss are the first / second derivatives of the unweighted loss. Shape handling and floating point are "
                 "not decided.",
        "note": _TB + "; reference table sa/specs/densities.py",
    },
    "C20": {
        "technique": "static analysis: interpretation of sens_to_jtj, eval_forwardforward and BaseLoss.hessian over arrays of "
                     "symbols; entry-wise polynomial identity against the Gram form and the second-order variational equations",
        "level": "Decides that jtj is the Gram matrix of the weighted target sensitivities (hence symmetric PSD), that the "
                 "terms of the second-order system that are present are right, and that hessian = 2 JTJ + sum diff_loss * "
                 "second-order sensitivities. One known finding: the mixed terms of the second-order system are missing.",
        "note": _TB,
    },
}

NOT_APPLICABLE = {}
for _e in ENGINES:
    _e["serves_properties"] = sorted(CLAIMED)
