"""What MANIFEST.json claims, per property (tools/manifest.py renders it)."""

ENGINES = [
    {"name": "sa", "path": "/verif/sa",
     "serves_properties": [],
     "kind_free_text": "custom static analyser over python ast: source model + resolver (E1), statement CFG with "
                       "dominators (E2), reaching definitions / provenance (E3), effect tables (E4), index-space and "
                       "layout typing (E5), polynomial canonical forms (E6), thin-wrapper normal form (E7)"},
]

_TB = ("python ast gives the program that runs; sympy/numpy/scipy behave as documented; reference tables in "
       "sa/specs written by hand; users go through public methods")

CLAIMED = {
    "C08": {
        "technique": "static analysis: call-graph closure of definition-state writers + CFG must-pass-through of trip(); "
                     "registry/canary set agreement; truth table of the recompile guard; cache-refresh dominance",
        "level": "Decides, for all histories at once, the structural necessary conditions of freshness: every write to "
                 "(computed) model-definition state reaches trip() on every normal exit; every registered evaluator has a "
                 "flag in the operative canary; the evaluator closure recompiles whenever its flag is set; the recompile "
                 "routine regenerates, stores, trips-if-master and resets its own flag; generators refresh the caches they "
                 "read and return no memo; no construction-time snapshot of definition state survives. Does not decide "
                 "that the regenerated expression is compiled correctly (library).",
        "note": _TB,
    },
}

NOT_APPLICABLE = {}
for _e in ENGINES:
    _e["serves_properties"] = sorted(CLAIMED)
