"""Spec table for the R-style helpers (C19).  Written by hand from the R manual
pages the wrappers cite and the scipy / numpy signatures.

p1, p2 = the wrapper's distribution parameters in declaration order (after the
first argument and before log / seed), e.g. dgamma(x, shape, rate): p1=shape, p2=rate.
"""

# family -> scipy object, kind, positional signature after x, expected keyword values,
#           numpy sampler name, its positional signature, expected keyword values, number of dist. params
FAMILIES = {
    "exp":   dict(scipy="st.expon", kind="cont", sig=["loc", "scale"], kw={"scale": "1/p1"},
                  np="exponential", npsig=["scale", "size"], npkw={"scale": "1/p1"}, nparam=1),
    "gamma": dict(scipy="st.gamma", kind="cont", sig=["a", "loc", "scale"], kw={"a": "p1", "scale": "1/p2"},
                  np="gamma", npsig=["shape", "scale", "size"], npkw={"shape": "p1", "scale": "1/p2"}, nparam=2),
    "norm":  dict(scipy="st.norm", kind="cont", sig=["loc", "scale"], kw={"loc": "p1", "scale": "p2"},
                  np="normal", npsig=["loc", "scale", "size"], npkw={"loc": "p1", "scale": "p2"}, nparam=2),
    "chisq": dict(scipy="st.chi2", kind="cont", sig=["df", "loc", "scale"], kw={"df": "p1"},
                  np="chisquare", npsig=["df", "size"], npkw={"df": "p1"}, nparam=1),
    "unif":  dict(scipy="st.uniform", kind="cont", sig=["loc", "scale"], kw={"loc": "p1", "scale": "p2-p1"},
                  np="uniform", npsig=["low", "high", "size"], npkw={"low": "p1", "high": "p2"}, nparam=2),
    "beta":  dict(scipy="st.beta", kind="cont", sig=["a", "b", "loc", "scale"], kw={"a": "p1", "b": "p2"},
                  np="beta", npsig=["a", "b", "size"], npkw={"a": "p1", "b": "p2"}, nparam=2),
    "pois":  dict(scipy="st.poisson", kind="disc", sig=["mu", "loc"], kw={"mu": "p1"},
                  np="poisson", npsig=["lam", "size"], npkw={"lam": "p1"}, nparam=1),
    "binom": dict(scipy="st.binom", kind="disc", sig=["n", "p", "loc"], kw={"n": "p1", "p": "p2"},
                  np="binomial", npsig=["n", "p", "size"], npkw={"n": "p1", "p": "p2"}, nparam=2),
}
DEFAULTS = {"loc": "0", "scale": "1"}

# method names per letter and kind:  (plain, log form)
METHODS = {("d", "cont"): ("pdf", "logpdf"), ("d", "disc"): ("pmf", "logpmf"),
           ("p", "cont"): ("cdf", "logcdf"), ("p", "disc"): ("cdf", "logcdf"),
           ("q", "cont"): ("ppf", None), ("q", "disc"): ("ppf", None)}

# generators whose docstring promises seeding (the property's list)
SEEDED = ["exp", "gamma", "norm", "chisq", "unif", "pois", "binom"]

# the wrappers that must exist (letter+family); beta has no p, nbinom handled separately
EXPECTED = [l + f for f in ["exp", "gamma", "norm", "chisq", "unif", "pois", "binom"] for l in "dpqr"] + \
           ["dbeta", "qbeta", "rbeta"]

# declared-but-unused parameters that are accepted, one symbol each, with the reason
UNUSED_EXCEPTIONS = {
    ("rbeta", "seed"): "beta is outside the seeding clause of the property (documented 'To do: write these ... with seeds')",
    ("rmvnorm", "seed"): "multivariate normal is outside the families of the property",
}

# references for the closed forms (mean parameterisations), as source text interpreted by E6
NB2_LOGPMF_NP = ("gammaln(x + n) - gammaln(n) - gammaln(x + 1) + n*np.log(p) + x*np.log(1 - p)")   # (n, p) form
GAMMA_LOGPDF_SHAPE_SCALE = ("(a - 1)*np.log(x) - x/theta - a*np.log(theta) - gammaln(a)")         # shape a, scale theta
