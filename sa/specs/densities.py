"""Reference log-densities in mean parameterisation (textbook forms), as source text that
core.algebra interprets.  y = observation, yhat = mean / prediction.
Sources: Bolker (2008) Ecological Models and Data in R, ch. 4 (Gamma, Negative binomial);
any statistics text for Normal and Poisson."""

LOGDENS = {
    "Normal":   "-np.log(sigma) - np.log(2*np.pi)/2 - (y - yhat)**2/(2*sigma**2)",
    "Poisson":  "y*np.log(yhat) - yhat - gammaln(y + 1)",
    # Gamma with shape a and mean yhat  (scale = yhat/a)
    "Gamma":    "(a - 1)*np.log(y) - a*y/yhat - a*np.log(yhat/a) - gammaln(a)",
    # NB2 with size k and mean yhat  (p = k/(k + yhat))
    "NegBinom": "gammaln(y + k) - gammaln(k) - gammaln(y + 1) + k*np.log(k/(k + yhat)) + y*np.log(yhat/(k + yhat))",
}
SQUARE = "(w*(y - yhat))**2"

# scipy.stats log-density calls that the helpers may delegate to: callee -> (positional names, formula)
SCIPY_LOG = {
    "st.poisson.logpmf": (["k", "mu"], "k*np.log(mu) - mu - gammaln(k + 1)"),
    "st.norm.logpdf": (["x", "loc", "scale"], "-np.log(scale) - np.log(2*np.pi)/2 - (x - loc)**2/(2*scale**2)"),
    "st.gamma.logpdf": (["x", "a", "loc", "scale"], "(a - 1)*np.log(x) - x/scale - a*np.log(scale) - gammaln(a)"),
    "st.nbinom.logpmf": (["k", "n", "p", "loc"], "gammaln(k + n) - gammaln(n) - gammaln(k + 1) + n*np.log(p) + k*np.log(1 - p)"),
}
SCIPY_PLAIN = {"st.poisson.pmf": "st.poisson.logpmf", "st.norm.pdf": "st.norm.logpdf", "st.gamma.pdf": "st.gamma.logpdf", "st.nbinom.pmf": "st.nbinom.logpmf"}

# attribute of each kernel that holds its spread parameter and the symbol it plays in the reference
SPREAD = {"Square": None, "Normal": ("_sigma", "sigma"), "Poisson": None, "Gamma": ("_shape", "a"), "NegBinom": ("_k", "k")}
