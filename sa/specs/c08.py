"""Frozen tables for C08 (one line of reason per entry)."""

# Attributes confirmed by reading to be model-definition state.  Used only as a
# floor for the *computed* definition state (which may contain more).
EXPECTED_D = {
    "_stateList",        # declared states; read by every generator through num_state / _iterStateList
    "_paramList",        # declared parameters; read by grad generators
    "_stateDict",        # state name -> symbol, read by checkEquation
    "_paramDict",        # parameter name -> symbol, read by checkEquation
    "_vectorStateDict",  # vector symbols, read by checkEquation
    "_derivedParamList", # derived parameters (written together with the dict)
    "_derivedParamDict", # derived name -> expression, substituted by checkEquation
    "_eventList",        # events: the processes of the model
    "_odeList",          # explicit ODE terms
}
EXPECTED_D.discard("_derivedParamList")  # only the dict is read at compile time; the list is bookkeeping

# Derived caches that the recompile routine reads without refreshing and that are
# written by a non-generator: attribute -> writers allowed without trip, reason.
DERIVED_CACHE_EXCEPTIONS = {
    "_sp": {"writers": {"set_sp"},
            "reason": "_sp is a pure function of the state and parameter lists and is rebuilt by the recompile routine itself on every "
                      "recompilation (decided on all short histories, including 'add a parameter then evaluate', by R-GUARD)"},
    "_s": {"writers": {"set_sp"}, "reason": "same as _sp"},
}

# attributes assigned in generators that are not caches of symbolic objects
NOT_A_CACHE = {"_isDifficult"}

MEMO_EXCEPTIONS = {
    "get_hessian_eqn": "memoises self._Hessian, but DeterministicOde.hessian/eval_hessian raise on every input on "
                       "this tree (they call undefined/None helpers), so no stale value is observable; not a registered evaluator",
}

# read at compile time and written outside generators, but not model definition
NOT_DEFINITION_STATE = {
    "_isDifficult": "sticky back-end choice flag (numpy vs mpmath), only ever OR-ed with its previous value by the "
                    "builders; it selects how an expression is compiled, not which expression",
}
