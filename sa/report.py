"""Obligations, results, known-findings matching, evidence and replay files."""
import json
import os
import time

from .core.source import norm

VERIF = os.path.dirname(os.path.dirname(os.path.abspath(__file__)))
EVIDENCE_DIR = os.path.join(VERIF, "evidence")
KNOWN_FILE = os.path.join(VERIF, "known_findings.json")

HOLDS, VIOLATED, UNDECIDED = "holds", "violated", "undecided"


class Ob:
    """one evaluated obligation = (rule, construct) with an outcome"""

    def __init__(self, rule, construct, status, msg="", func=None, node=None, tag=None, extra=None):
        self.rule = rule
        self.construct = construct      # stable key: file::qualname[::tag]
        self.status = status
        self.msg = msg
        self.file = func.module.rel if func is not None else None
        self.line = getattr(node, "lineno", None) if node is not None else (func.node.lineno if func is not None else None)
        self.stmt = norm(node) if node is not None else ""
        self.tag = tag
        self.extra = extra or {}

    def as_dict(self):
        d = {"rule": self.rule, "construct": self.construct, "status": self.status,
             "message": self.msg, "file": self.file, "line": self.line, "statement": self.stmt[:300]}
        if self.extra:
            d["extra"] = self.extra
        return d


class Result:
    def __init__(self, prop, repo):
        self.prop = prop
        self.repo = repo
        self.obs = []
        self.observations = []     # not gated
        self.functions = set()     # constructs analysed
        self.notes = []
        self.n_clauses = []        # clauses NOT decided, with reason
        self.s_clauses = []        # clauses decided
        self.selftest = None
        self.floors = []           # (what, count, floor)
        self.rules = {}            # rule id -> one-line description

    # convenience constructors ------------------------------------------------
    def _mk(self, status, rule, func, tag, msg, node=None, extra=None):
        construct = func.construct if hasattr(func, "construct") else str(func)
        if tag:
            construct += "::" + tag
        o = Ob(rule, construct, status, msg, func if hasattr(func, "module") else None, node, tag, extra)
        self.obs.append(o)
        if hasattr(func, "construct"):
            self.functions.add(func.construct)
        return o

    def holds(self, rule, func, tag, msg="", node=None, extra=None):
        return self._mk(HOLDS, rule, func, tag, msg, node, extra)

    def violated(self, rule, func, tag, msg, node=None, extra=None):
        return self._mk(VIOLATED, rule, func, tag, msg, node, extra)

    def undecided(self, rule, func, tag, msg, node=None, extra=None):
        return self._mk(UNDECIDED, rule, func, tag, msg, node, extra)

    def check(self, cond, rule, func, tag, ok_msg, bad_msg, node=None, extra=None):
        if cond:
            return self.holds(rule, func, tag, ok_msg, node, extra)
        return self.violated(rule, func, tag, bad_msg, node, extra)

    def floor(self, what, count, floor):
        """a rule that matches fewer instances than were confirmed by hand cannot
        be trusted to have looked at the code it was written for"""
        self.floors.append((what, count, floor))
        if count < floor:
            self.obs.append(Ob("FLOOR", "floor::" + what, UNDECIDED,
                               "instance count %d below the confirmed floor %d" % (count, floor)))

    def observe(self, text, func=None, node=None):
        self.observations.append({"text": text,
                                  "file": func.module.rel if func is not None else None,
                                  "line": getattr(node, "lineno", None)})

    def rule(self, rid, text):
        self.rules[rid] = text


def load_known():
    if not os.path.exists(KNOWN_FILE):
        return []
    with open(KNOWN_FILE) as fh:
        return json.load(fh)


def emit(result, tier, seed, t0, level="other", technique=""):
    """print the console lines, write evidence + replay files, return exit code"""
    prop = result.prop
    known = [k for k in load_known() if k.get("property") == prop]
    known_open = {(k["rule"], k["construct"]): k for k in known if k.get("status") == "known"}
    viol = [o for o in result.obs if o.status == VIOLATED]
    und = [o for o in result.obs if o.status == UNDECIDED]
    held = [o for o in result.obs if o.status == HOLDS]
    n_inst = len({(o.rule, o.construct) for o in result.obs})
    global EVIDENCE_DIR
    from .core.source import REPO as _REPO
    if os.path.realpath(result.repo.root) != os.path.realpath(_REPO):
        # a development run against a scratch copy (--root): never overwrite the evidence of /repo
        import tempfile
        EVIDENCE_DIR = os.path.join(tempfile.gettempdir(), "sa_scratch_evidence")
    print("ANALYSED property=%s tier=%s rules=%d obligations=%d instances=%d functions=%d digest=%s"
          % (prop, tier, len({o.rule for o in result.obs}), len(result.obs), n_inst,
             len(result.functions), result.repo.digest[:12]))
    os.makedirs(os.path.join(EVIDENCE_DIR, "replay"), exist_ok=True)
    # clear stale replay files of this property
    for fn in os.listdir(os.path.join(EVIDENCE_DIR, "replay")):
        if fn.startswith(prop + "-"):
            os.remove(os.path.join(EVIDENCE_DIR, "replay", fn))
    new_viol, known_hit = [], []
    for o in viol:
        k = known_open.get((o.rule, o.construct))
        if k is not None:
            known_hit.append((o, k))
        else:
            new_viol.append(o)
    for o, k in known_hit:
        print("KNOWN-FINDING: property=%s rule=%s construct=%s %s" % (prop, o.rule, o.construct, k.get("what", o.msg)))
    # a known finding that no longer reproduces is reported (informational only)
    hit_keys = {(o.rule, o.construct) for o, _ in known_hit}
    for key, k in known_open.items():
        if key not in hit_keys and not (k.get("tier") == "thorough" and tier == "quick"):
            print("NOTE property=%s known finding no longer reproduces: rule=%s construct=%s" % (prop, key[0], key[1]))
    for i, o in enumerate(new_viol):
        rp = os.path.join(EVIDENCE_DIR, "replay", "%s-%d.json" % (prop, i))
        with open(rp, "w") as fh:
            json.dump({"property": prop, "rule": o.rule, "construct": o.construct, "file": o.file,
                       "line": o.line, "statement": o.stmt, "message": o.msg,
                       "digest": result.repo.digest}, fh, indent=1)
        print("VIOLATION property=%s replay=%s" % (prop, rp))
        print("  rule=%s construct=%s" % (o.rule, o.construct))
        print("  at %s:%s  %s" % (o.file, o.line, o.stmt[:160]))
        print("  %s" % o.msg)
    for o in und:
        print("ANALYSIS-ERROR property=%s obligation=%s construct=%s reason=%s" % (prop, o.rule, o.construct, o.msg))
    for ob in result.observations:
        print("OBSERVATION property=%s %s:%s %s" % (prop, ob["file"], ob["line"], ob["text"]))

    samples = [o.as_dict() for o in (new_viol + [o for o, _ in known_hit] + und)[:20]]
    # a spread of discharged obligations, one per rule first
    seen_rules = set()
    for o in held:
        if o.rule not in seen_rules:
            samples.append(o.as_dict())
            seen_rules.add(o.rule)
    for o in held[:max(0, 40 - len(samples))]:
        samples.append(o.as_dict())
    coverage = {
        "explanation": ("Static analysis of /repo/src/pygom parsed with ast on this run (no import, no execution). "
                        "Rules applied: " + "; ".join("%s: %s" % kv for kv in sorted(result.rules.items()))),
        "evaluations": len(result.obs),
        "distinct_nontrivial": n_inst,
        "rule": ("one evaluation = one obligation (rule instantiated at a construct of the current tree); "
                 "distinct = distinct (rule, construct) pairs that matched a real construct; an obligation is "
                 "non-trivial because it is only created when its anchor construct exists in the parsed source"),
        "samples": samples,
        "obligations": len(result.obs),
        "discharged": len(held),
        "violated_new": len(new_viol),
        "violated_known": len(known_hit),
        "undecided": len(und),
        "checker_cmd": "/venv/bin/python -m sa.run %s --tier %s" % (prop, tier),
        "trusted_base": ["python ast gives the program that runs", "sympy/numpy/scipy behave as documented",
                         "hand-written reference tables in sa/specs"],
        "functions_analysed": sorted(result.functions),
        "files_parsed": result.repo.n_files,
        "source_digest": result.repo.digest,
        "clauses_decided": result.s_clauses,
        "clauses_not_decided": result.n_clauses,
        "instance_floors": [{"what": w, "count": c, "floor": f} for w, c, f in result.floors],
        "known_findings_printed": [{"rule": o.rule, "construct": o.construct} for o, _ in known_hit],
        "observations": result.observations,
        "technique": technique,
        "exhaustive": True,
    }
    if result.selftest is not None:
        coverage["selftest"] = result.selftest
    ev = {
        "property_id": prop,
        "tier": tier,
        "seed": seed,
        "level": level,
        "coverage": coverage,
        "assumptions": [
            "users mutate models through public methods/setters, not by writing private attributes",
            "no monkey patching of the analysed classes at run time",
            "sympy parses strings to the intended expressions and differentiates correctly",
            "numpy/scipy samplers, integrators, optimisers and reshape/kron semantics are as documented",
        ] + result.notes,
        "wall_s": round(time.time() - t0, 3),
        "violations": len(new_viol),
    }
    with open(os.path.join(EVIDENCE_DIR, prop + ".json"), "w") as fh:
        json.dump(ev, fh, indent=1, default=str)
    if new_viol:
        return 1
    if und:
        return 2
    return 0
