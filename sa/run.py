"""Driver:  python -m sa.run C08 --tier quick|thorough
            python -m sa.run --replay evidence/replay/C08-0.json
            python -m sa.run --all [--tier quick]

Exit codes: 0 property held on everything analysed (known findings printed);
            1 VIOLATION line(s) printed; 2 ANALYSIS-ERROR (anchor vanished,
            unmodelled idiom, instance floor not met, internal error).
"""
import argparse
import importlib
import json
import os
import sys
import time
import traceback

from .core.source import Repo, AnalysisError
from . import report

PROPS = ["C%02d" % i for i in range(1, 21)]


def run_one(prop, tier, seed, root=None, quiet=False):
    t0 = time.time()
    try:
        repo = Repo(root)
        _register_abstract_classes(repo)
        mod = importlib.import_module("sa.checks." + prop)
        res = report.Result(prop, repo)
        mod.check(repo, res, tier)
        if tier == "thorough":
            from .selftest import runner
            tally = runner.run(prop, root)
            res.selftest = tally
            for m in tally["misses"]:
                print("SELFTEST-MISS property=%s %s: %s" % (prop, m["variant"], m["problem"]))
                res.undecided("SELFTEST", "selftest::" + m["variant"], None, m["problem"])
            print("SELFTEST property=%s faults %d/%d detected, refactorings %d/%d silent, seeded %d/%d detected, sub-agent refactorings %d/%d silent"
                  % (prop, tally["faults_detected"], tally["faults_applied"], tally["refactorings_silent"], tally["refactorings_applied"],
                     tally["seeded_detected"], tally["seeded_applied"], tally.get("agent_refactorings_silent", 0), tally.get("agent_refactorings_applied", 0)))
        try:
            from .specs.manifest_table import CLAIMED
            technique = CLAIMED[prop]["technique"]
        except Exception:
            technique = getattr(mod, "TECHNIQUE", "")
        return report.emit(res, tier, seed, t0, technique=technique)
    except AnalysisError as e:
        print("ANALYSIS-ERROR property=%s obligation=anchor reason=%s" % (prop, e))
        return 2
    except Exception:
        traceback.print_exc(file=sys.stdout)
        print("ANALYSIS-ERROR property=%s obligation=internal reason=checker raised an exception" % prop)
        return 2


def _register_abstract_classes(repo):
    from .core import absint
    from .rules import model as M
    absint.CLASS_METHODS.clear()
    absint.CTOR_ATTRS.clear()
    try:
        absint.register_class("Model", repo, M.sim_class(repo))
        absint.register_class("Loss", repo, repo.cls(M.M_LOSS, "BaseLoss"))
        absint.register_class("ABC", repo, repo.cls(M.M_ABC, "ABC"))
        lt = repo.module(M.M_LOSSTYPE)
        absint.register_class("Kernel", repo, *[c for c in lt.classes.values()])
        tr = repo.module(M.M_TRANS)
        absint.register_class("Transition", repo, tr.classes["Transition"])
        absint.register_class("Event", repo, tr.classes["Event"])
        absint.ENUM_VALUES.clear()
        import ast as _ast
        for cname, ci in tr.classes.items():
            if any((getattr(b, "id", None) or getattr(b, "attr", None)) == "Enum" for b in ci.node.bases):
                for st in ci.node.body:
                    if isinstance(st, _ast.Assign) and len(st.targets) == 1 and isinstance(st.targets[0], _ast.Name) and isinstance(st.value, _ast.Constant):
                        absint.ENUM_VALUES[st.targets[0].id] = st.value.value
    except (AnalysisError, KeyError):
        pass


def replay(path):
    with open(path) as fh:
        r = json.load(fh)
    prop = r["property"]
    repo = Repo()
    mod = importlib.import_module("sa.checks." + prop)
    res = report.Result(prop, repo)
    mod.check(repo, res, "quick")
    hits = [o for o in res.obs if o.rule == r["rule"] and o.construct == r["construct"]]
    print("REPLAY property=%s rule=%s construct=%s" % (prop, r["rule"], r["construct"]))
    if repo.digest != r.get("digest"):
        print("  note: source digest differs from the run that wrote this file")
    if not hits:
        print("  the obligation no longer exists on the current tree")
        return 2
    rc = 0
    for o in hits:
        print("  status=%s at %s:%s" % (o.status, o.file, o.line))
        print("  %s" % o.stmt[:200])
        print("  %s" % o.msg)
        if o.file and o.line:
            m = repo.by_rel.get(o.file)
            if m:
                for ln in range(max(1, o.line - 3), o.line + 4):
                    print("    %4d %s %s" % (ln, ">" if ln == o.line else " ", m.line(ln)))
        if o.status == report.VIOLATED:
            rc = 1
    return rc


def main(argv=None):
    ap = argparse.ArgumentParser()
    ap.add_argument("prop", nargs="?")
    ap.add_argument("--tier", default=os.environ.get("VERIF_TIER", "quick"), choices=["quick", "thorough"])
    ap.add_argument("--replay")
    ap.add_argument("--all", action="store_true")
    ap.add_argument("--root", default=None)
    ap.add_argument("--selfcheck", action="store_true")
    ap.add_argument("--no-evidence", action="store_true")
    a = ap.parse_args(argv)
    seed = int(os.environ.get("VERIF_SEED", "0") or 0)
    if a.no_evidence:
        import tempfile
        report.EVIDENCE_DIR = tempfile.mkdtemp(prefix="sa_ev_")
        import atexit, shutil
        atexit.register(shutil.rmtree, report.EVIDENCE_DIR, True)
    if a.selfcheck:
        repo = Repo(a.root)
        print("selfcheck: parsed %d files under %s, digest %s" % (repo.n_files, repo.pkg, repo.digest[:12]))
        os.makedirs(report.EVIDENCE_DIR, exist_ok=True)
        return 0 if repo.n_files >= 25 else 2
    if a.replay:
        return replay(a.replay)
    if a.all:
        worst = 0
        for p in PROPS:
            if os.path.exists(os.path.join(os.path.dirname(__file__), "checks", p + ".py")):
                worst = max(worst, run_one(p, a.tier, seed, a.root))
        return worst
    if not a.prop:
        ap.error("property id required")
    return run_one(a.prop, a.tier, seed, a.root)


if __name__ == "__main__":
    sys.exit(main())
