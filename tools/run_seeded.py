#!/usr/bin/env python3
"""Harvest, verify and replay seeded changes.

  run_seeded.py harvest C01 [/tmp/wt_C01]   copy seed_out/{patch.diff,demo.py,meta.json} into /verif/seeded/<id>/
  run_seeded.py verify <id> [--suite]       on a scratch copy of /repo: demo passes clean, fails patched (and the
                                            unedited suite still passes with --suite); run all checks statically on the
                                            patched copy; record verified/caught_by in meta.json
  run_seeded.py table                       rewrite /verif/seeded/README.md

Scratch copies live under a tempfile directory and are removed afterwards; /repo is never modified.
"""
import json
import os
import shutil
import subprocess
import sys
import tempfile
import time

VERIF = "/verif"
SEEDED = os.path.join(VERIF, "seeded")
PY = "/venv/bin/python"
PROPS = ["C%02d" % i for i in range(1, 21)]


def harvest(pid, wt=None):
    wt = wt or "/tmp/wt_" + pid
    src = os.path.join(wt, "seed_out")
    n = 1
    while os.path.exists(os.path.join(SEEDED, "%s-%d" % (pid, n))):
        n += 1
    dst = os.path.join(SEEDED, "%s-%d" % (pid, n))
    os.makedirs(dst)
    for fn in ("patch.diff", "demo.py", "meta.json"):
        shutil.copy(os.path.join(src, fn), os.path.join(dst, fn))
    print("harvested", dst)
    return os.path.basename(dst)


def scratch():
    tmp = tempfile.mkdtemp(prefix="sa_seed_")
    for d in ("src", "tests"):
        shutil.copytree(os.path.join("/repo", d), os.path.join(tmp, d), ignore=shutil.ignore_patterns("__pycache__", "*.pyc"))
    for fn in ("pyproject.toml", "setup.py", "setup.cfg", "pytest.ini", "tox.ini", "conftest.py"):
        p = os.path.join("/repo", fn)
        if os.path.exists(p):
            shutil.copy(p, tmp)
    return tmp


def run_demo(tmp, demo):
    env = dict(os.environ, PYTHONPATH=os.path.join(tmp, "src"))
    t0 = time.time()
    r = subprocess.run([PY, demo], cwd=tmp, env=env, capture_output=True, text=True, timeout=900)
    return r.returncode, (r.stdout + r.stderr)[-600:], round(time.time() - t0, 1)


def verify(sid, suite=False):
    d = os.path.join(SEEDED, sid)
    meta = json.load(open(os.path.join(d, "meta.json")))
    patch = os.path.join(d, "patch.diff")
    demo = os.path.join(d, "demo.py")
    tmp = scratch()
    try:
        rc0, out0, t0 = run_demo(tmp, demo)
        r = subprocess.run(["patch", "-p1", "-s", "-d", tmp, "-i", patch], capture_output=True, text=True)
        if r.returncode != 0:
            print("PATCH DOES NOT APPLY", r.stdout, r.stderr)
            meta["verified"] = {"applies": False}
            json.dump(meta, open(os.path.join(d, "meta.json"), "w"), indent=1)
            return
        rc1, out1, t1 = run_demo(tmp, demo)
        ver = {"applies": True, "demo_clean_exit": rc0, "demo_patched_exit": rc1, "demo_s": [t0, t1],
               "demo_patched_tail": out1[-300:], "base_commit": subprocess.run(["git", "-C", "/repo", "rev-parse", "--short", "HEAD"], capture_output=True, text=True).stdout.strip()}
        if suite:
            env = dict(os.environ, PYTHONPATH=os.path.join(tmp, "src"))
            rs = subprocess.run([PY, "-m", "pytest", "-q", "-p", "no:cacheprovider", "--timeout=900", "-n", "8", "tests"], cwd=tmp, env=env,
                                capture_output=True, text=True, timeout=3600)
            tail = [l for l in rs.stdout.splitlines() if " passed" in l or " failed" in l]
            ver["suite_patched"] = tail[-1] if tail else rs.stdout[-200:]
        caught = {}
        for p in PROPS:
            rr = subprocess.run([PY, "-m", "sa.run", p, "--root", tmp, "--no-evidence"], cwd=VERIF, capture_output=True, text=True)
            lines = rr.stdout.splitlines()
            rules = [l.strip() for l in lines if l.startswith("  rule=")]
            if rr.returncode == 1:
                caught[p] = rules[:3]
            elif rr.returncode == 2:
                caught[p + "(analysis-error)"] = [l for l in lines if l.startswith("ANALYSIS-ERROR")][:2]
        meta["verified"] = ver
        meta["caught_by"] = sorted(k for k in caught if "(" not in k)
        meta["reports"] = caught
        json.dump(meta, open(os.path.join(d, "meta.json"), "w"), indent=1)
        print(sid, "clean exit", rc0, "patched exit", rc1, "caught_by", meta["caught_by"], ver.get("suite_patched", ""))
        for k, v in caught.items():
            print("  ", k, v[:2])
    finally:
        shutil.rmtree(tmp, ignore_errors=True)


def restatic(sid):
    """recompute caught_by / reports of one seed from the static checks alone (no demo run)"""
    d = os.path.join(SEEDED, sid)
    meta = json.load(open(os.path.join(d, "meta.json")))
    tmp = scratch()
    try:
        r = subprocess.run(["patch", "-p1", "-s", "-d", tmp, "-i", os.path.join(d, "patch.diff")], capture_output=True, text=True)
        if r.returncode != 0:
            return sid, "PATCH DOES NOT APPLY"
        caught = {}
        for p in PROPS:
            rr = subprocess.run([PY, "-m", "sa.run", p, "--root", tmp, "--no-evidence"], cwd=VERIF, capture_output=True, text=True)
            lines = rr.stdout.splitlines()
            if rr.returncode == 1:
                caught[p] = [l.strip() for l in lines if l.startswith("  rule=")][:3]
            elif rr.returncode == 2:
                caught[p + "(analysis-error)"] = [l for l in lines if l.startswith("ANALYSIS-ERROR")][:2]
        old = meta.get("caught_by")
        meta["caught_by"] = sorted(k for k in caught if "(" not in k)
        meta["reports"] = caught
        json.dump(meta, open(os.path.join(d, "meta.json"), "w"), indent=1)
        return sid, "%s -> %s%s" % (old, meta["caught_by"], "" if meta.get("property") in meta["caught_by"] else "   ** own property silent **")
    finally:
        shutil.rmtree(tmp, ignore_errors=True)


def table():
    rows = []
    for sid in sorted(os.listdir(SEEDED)):
        mp = os.path.join(SEEDED, sid, "meta.json")
        if not os.path.exists(mp):
            continue
        m = json.load(open(mp))
        v = m.get("verified", {})
        rep = m.get("reports", {})
        first = ""
        for p in m.get("caught_by", []):
            if rep.get(p):
                first = rep[p][0].replace("rule=", "").split(" construct=")[0] + " @ " + rep[p][0].split("::", 1)[-1][:60]
                break
        rows.append("| %s | %s | %s | %s | %s / %s | %s | %s |" % (
            sid, m.get("property"), (m.get("summary") or "")[:110].replace("|", "/"), (m.get("needs") or "")[:90].replace("|", "/"),
            v.get("demo_clean_exit"), v.get("demo_patched_exit"), ", ".join(m.get("caught_by", [])) or "**missed**", first))
    with open(os.path.join(SEEDED, "README.md"), "w") as fh:
        fh.write("# Seeded changes\n\nWritten by independent sub-agents that saw only the property text and a scratch worktree. "
                 "Each directory holds `patch.diff`, `demo.py` (exit 0 on the unchanged tree, exit 1 with the change) and `meta.json` "
                 "(what it breaks, what it needs to manifest, what was run, `verified`, `caught_by`).\n\n"
                 "Verified with `tools/run_seeded.py verify <id>` on a scratch copy; replayed by the thorough tier of every property in `caught_by`.\n\n"
                 "| id | property | change | needs | demo clean / patched exit | caught by | first report |\n|---|---|---|---|---|---|---|\n")
        fh.write("\n".join(rows) + "\n")
    print("wrote README with", len(rows), "rows")


if __name__ == "__main__":
    cmd = sys.argv[1]
    if cmd == "harvest":
        sid = harvest(*sys.argv[2:4])
    elif cmd == "verify":
        verify(sys.argv[2], "--suite" in sys.argv)
    elif cmd == "restatic":
        from concurrent.futures import ProcessPoolExecutor
        ids = sys.argv[2:] or sorted(x for x in os.listdir(SEEDED) if os.path.exists(os.path.join(SEEDED, x, "meta.json")))
        with ProcessPoolExecutor(max_workers=5) as ex:
            for sid, msg in ex.map(restatic, ids):
                print(sid, msg, flush=True)
    elif cmd == "table":
        table()
