#!/usr/bin/env python3
"""viewtest.py: differential test of array aliasing - views, copies, in-place writes - executor + array models against numpy.

Development aid (like interptest.py / modeltest.py).  Each scenario is a small function over `np`; numpy runs it for real, the
executor interprets it twice, once with the symbolic arrays' library models and once with the concrete ones.  The returned
arrays must agree in shape and values; Undecided is honest and counted.

  /venv/bin/python tools/viewtest.py [-v] [--only REGEX]
"""
import argparse
import ast
import re
import sys
import textwrap

import numpy as np

sys.path.insert(0, "/verif")
from sa.core import algebra as A                      # noqa: E402
from sa.core.absint import Abs, Raised                # noqa: E402
from sa.core.algebra import Undecided                 # noqa: E402
from sa.core.numarr import NumArr, num_summaries      # noqa: E402
from sa.core.symarr import SymArr, np_summaries       # noqa: E402

CORPUS = r'''
def row_view_write():
    a = np.arange(12.0).reshape(3, 4)
    v = a[1]
    v[0] = 99.0
    return a

def column_view_inplace_mul():
    a = np.arange(12.0).reshape(3, 4)
    c = a[:, 1]
    c *= 2.0
    return a

def reshape_is_view():
    a = np.arange(12.0)
    r = a.reshape(3, 4)
    r[0, 0] = -1.0
    return a, r

def np_reshape_is_view():
    a = np.arange(6.0)
    r = np.reshape(a, (2, 3))
    r *= 10.0
    return a

def transpose_is_view():
    a = np.arange(6.0).reshape(2, 3)
    t = a.T
    t[0, 1] = 5.0
    return a

def fancy_index_is_copy():
    a = np.arange(12.0).reshape(3, 4)
    f = a[[0, 1]]
    f[0, 0] = 7.0
    return a, f

def ravel_view_flatten_copy():
    a = np.arange(6.0).reshape(2, 3)
    r = a.ravel()
    r[0] = 3.0
    f = a.flatten()
    f[1] = 8.0
    return a

def ravel_of_transpose_is_copy():
    a = np.arange(6.0).reshape(2, 3)
    r = a.T.ravel()
    r[0] = 9.0
    return a, r

def copy_breaks_alias():
    a = np.arange(4.0)
    b = a.copy()
    c = np.array(a)
    d = np.asarray(a)
    b[0] = 1.0
    c[1] = 2.0
    d[2] = 3.0
    return a

def name_rebinding_vs_inplace():
    a = np.arange(3.0)
    b = a
    b = b + 1.0
    c = a
    c += 1.0
    return a, b, c

def slice_assignment_broadcast():
    a = np.zeros((3, 4))
    a[:, 1] = [1.0, 2.0, 3.0]
    a[0] = 7.0
    a[1:, 2:] = [[1.0, 2.0], [3.0, 4.0]]
    return a

def boolean_mask_assignment_2d():
    a = np.arange(12.0).reshape(3, 4)
    a[a > 6.0] = 0.0
    return a

def boolean_mask_assignment_1d():
    a = np.arange(5.0)
    a[a % 2 == 0] = -1.0
    return a

def mask_copy_then_two_masks():
    m = np.array([[1.0, -1.0, 0.0], [2.0, 1.0, -1.0]])
    loss = m.copy()
    loss[loss == 1.0] = 0.0
    loss[loss == -1.0] = 1.0
    return m, loss

def where_nested_same_as_masks():
    m = np.array([[1.0, -1.0, 0.0], [2.0, 1.0, -1.0]])
    return np.where(m == -1.0, 1.0, np.where(m == 1.0, 0.0, m))

def fancy_assignment_pairs():
    a = np.zeros((3, 3))
    a[[0, 1, 2], [2, 1, 0]] = [1.0, 2.0, 3.0]
    return a

def ix_assignment_grid():
    a = np.zeros((3, 4))
    a[np.ix_([0, 2], [1, 3])] = 5.0
    return a

def add_at_like_accumulation():
    a = np.zeros(3)
    idx = [0, 0, 2]
    a[idx] += 1.0
    return a

def append_and_concatenate_copy():
    a = np.arange(3.0)
    b = np.append(a, [9.0])
    c = np.concatenate((a, a))
    b[0] = 5.0
    c[1] = 6.0
    return a, b, c

def zeros_like_dtype_int_truncates():
    x = np.array([2, 1])
    e = np.zeros_like(x)
    e[0] = 2.7
    f = np.zeros(2)
    f[0] = 2.7
    return e, f

def full_like_int():
    y = np.array([3, 7])
    return np.full_like(y, 2.5), np.full(2, 2.5), np.full_like(y, 2.5, dtype=float)

def insert_casts_append_promotes():
    t = np.array([1, 2, 3])
    return np.insert(t, 0, 0.5), np.append(0.5, t)

def mean_out_writes_into():
    runs = [np.array([[1.0, 2.0]]), np.array([[3.0, 6.0]])]
    buf = runs[-1]
    m = np.mean(runs, axis=0, out=buf)
    return runs[0], runs[1], m

def dstack_mean_no_alias():
    runs = [np.array([[1.0, 2.0]]), np.array([[3.0, 6.0]])]
    m = np.dstack(runs).mean(axis=2)
    return runs[1], m

def newaxis_and_broadcast_mul_inplace():
    s = np.arange(12.0).reshape(2, 3, 2)
    w = np.array([[1.0, 2.0, 3.0], [4.0, 5.0, 6.0]])
    s *= w[..., np.newaxis]
    return s

def loop_slice_inplace_3d():
    s = np.arange(12.0).reshape(2, 3, 2)
    w = np.array([[1.0, 2.0, 3.0], [4.0, 5.0, 6.0]])
    for j in range(2):
        s[:, :, j] *= w
    return s

def reshape_F_view_write():
    sens = np.arange(12.0).reshape(2, 6)
    r = np.reshape(sens, (2, 3, 2), 'F')
    r[:, :, 0] *= 10.0
    return sens

def take_is_copy():
    a = np.arange(6.0).reshape(2, 3)
    t = np.take(a, [0, 2], axis=1)
    t[0, 0] = 9.0
    return a, t

def list_of_views_shared():
    a = np.zeros((2, 2))
    rows = [a[0], a[1]]
    rows[0][1] = 4.0
    return a

def swapaxes_view():
    a = np.arange(6.0).reshape(2, 3)
    sw = np.swapaxes(a, 0, 1)
    sw[2, 0] = 8.0
    return a
'''


def to_np(v):
    if isinstance(v, (tuple, list)) and v and isinstance(v[0], (NumArr, SymArr, tuple, list)):
        return [to_np(x) for x in v]
    if isinstance(v, NumArr):
        return np.array(v.tolist(), dtype=float)
    if isinstance(v, SymArr):
        flat = []
        for e in v.flat:
            if isinstance(e, bool):
                flat.append(float(e))
                continue
            r = A.lift(e)
            if r.is_const():
                flat.append(float(r.const_value()))
            else:
                at = r.atoms()
                if any(a_[0] == "sym" and "int_cast" in a_[1] for a_ in at):
                    flat.append(float("nan"))            # the integer cast of a non-integer: shown as such
                else:
                    raise Undecided("symbolic entry")
        return np.array(flat, dtype=float).reshape(v.shape)
    if isinstance(v, A.Rat):
        return np.array(float(v.const_value()))
    return np.asarray(v, dtype=float)


def same(a, b):
    if isinstance(a, list) or isinstance(b, (list, tuple)):
        b = list(b) if isinstance(b, tuple) else b
        return isinstance(a, list) and isinstance(b, list) and len(a) == len(b) and all(same(x, y) for x, y in zip(a, b))
    a, b = np.asarray(a, dtype=float), np.asarray(b, dtype=float)
    return a.shape == b.shape and np.allclose(a, b, equal_nan=True)


def main():
    ap = argparse.ArgumentParser()
    ap.add_argument("-v", action="store_true")
    ap.add_argument("--only")
    a = ap.parse_args()
    ns = {"np": np}
    exec(compile(CORPUS, "<corpus>", "exec"), ns)
    tree = ast.parse(textwrap.dedent(CORPUS))
    tally = {"ok": 0, "undecided": 0, "wrong": 0}
    for node in tree.body:
        if not isinstance(node, ast.FunctionDef) or (a.only and not re.search(a.only, node.name)):
            continue
        want = ns[node.name]()
        want = [np.asarray(x, dtype=float) for x in want] if isinstance(want, tuple) else np.asarray(want, dtype=float)
        for flavour, summ in (("symarr", np_summaries()), ("numarr", num_summaries())):
            try:
                kind, val = Abs({}, {}, dict(summ), None, budget=400000).run_function(node, {})
                if kind != "return":
                    got = ("raise", val)
                else:
                    got = ("value", to_np(val if not isinstance(val, tuple) else list(val)))
            except Undecided as e:
                tally["undecided"] += 1
                if a.v:
                    print("UNDECIDED %-7s %-36s %s" % (flavour, node.name, str(e)[:90]))
                continue
            except Raised as e:
                got = ("raise", e.exc)
            except Exception as e:          # noqa: BLE001
                got = ("crash", "%s: %s" % (type(e).__name__, e))
            if got[0] == "value" and same(got[1], want):
                tally["ok"] += 1
            else:
                tally["wrong"] += 1
                print("WRONG     %-7s %-36s\n     numpy: %s\n     model: %s %s" % (flavour, node.name, [x.tolist() for x in want] if isinstance(want, list) else want.tolist(), got[0],
                                                                                    [x.tolist() for x in got[1]] if isinstance(got[1], list) else (got[1].tolist() if hasattr(got[1], "tolist") else got[1])))
    print("summary:", tally)
    return 1 if tally["wrong"] else 0


if __name__ == "__main__":
    sys.exit(main())
