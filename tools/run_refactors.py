#!/usr/bin/env python3
"""Harvest and replay behaviour-preserving refactorings (false-alarm controls).

  run_refactors.py harvest C01 [/tmp/rf_C01]   copy refactor_out/{r*.diff,check.py,meta.json} into /verif/refactors/<pid>/
  run_refactors.py check [<pid> ...]           on scratch copies of /repo: apply each r*.diff alone and run all 20 checks
                                               statically; anything but exit 0 is printed (a false alarm or an engine gap)
  run_refactors.py equiv <pid>                 run check.py on the base and with each diff applied; outputs must be identical
  run_refactors.py table                       rewrite /verif/refactors/README.md

Scratch copies live under a tempfile directory and are removed afterwards; /repo is never modified.
"""
import glob
import json
import os
import shutil
import subprocess
import sys
import tempfile
from concurrent.futures import ProcessPoolExecutor

VERIF = "/verif"
REF = os.path.join(VERIF, "refactors")
PY = "/venv/bin/python"
PROPS = ["C%02d" % i for i in range(1, 21)]


def harvest(pid, wt=None):
    wt = wt or "/tmp/rf_" + pid
    src = os.path.join(wt, "refactor_out")
    dst = os.path.join(REF, pid)
    os.makedirs(dst, exist_ok=True)
    n = 0
    for fn in sorted(os.listdir(src)):
        if fn.endswith(".diff") or fn in ("check.py", "meta.json"):
            shutil.copy(os.path.join(src, fn), os.path.join(dst, fn))
            n += 1
    print("harvested", dst, n, "files")


def scratch():
    tmp = tempfile.mkdtemp(prefix="sa_rf_")
    shutil.copytree("/repo/src", os.path.join(tmp, "src"), ignore=shutil.ignore_patterns("__pycache__", "*.pyc"))
    return tmp


def check_one(args):
    pid, diff = args
    tmp = scratch()
    out = {"id": "%s/%s" % (pid, os.path.basename(diff)), "alarms": {}}
    try:
        r = subprocess.run(["patch", "-p1", "-s", "-d", tmp, "-i", diff], capture_output=True, text=True)
        if r.returncode != 0:
            out["applies"] = False
            out["why"] = (r.stdout + r.stderr)[-300:]
            return out
        out["applies"] = True
        for p in PROPS:
            rr = subprocess.run([PY, "-m", "sa.run", p, "--root", tmp, "--no-evidence"], cwd=VERIF, capture_output=True, text=True)
            if rr.returncode != 0:
                lines = rr.stdout.splitlines()
                keep = [l.strip()[:400] for l in lines if l.startswith(("VIOLATION", "ANALYSIS-ERROR", "  rule="))]
                out["alarms"][p] = {"exit": rr.returncode, "lines": keep[:6] or (rr.stdout + rr.stderr)[-400:].splitlines()}
        return out
    finally:
        shutil.rmtree(tmp, ignore_errors=True)


def check(pids):
    jobs = []
    for pid in pids or sorted(os.listdir(REF)):
        for diff in sorted(glob.glob(os.path.join(REF, pid, "r*.diff"))):
            jobs.append((pid, diff))
    results = {}
    with ProcessPoolExecutor(max_workers=8) as ex:
        for out in ex.map(check_one, jobs):
            results[out["id"]] = out
            if not out.get("applies"):
                print(out["id"], "DOES NOT APPLY", out.get("why", "")[-120:])
            elif out["alarms"]:
                print(out["id"], "ALARMS")
                for p, a in out["alarms"].items():
                    print("   ", p, "exit", a["exit"])
                    for l in a["lines"][:4]:
                        print("       ", l[:300])
            else:
                print(out["id"], "silent")
    for pid in {k.split("/")[0] for k in results}:
        mp = os.path.join(REF, pid, "meta.json")
        meta = json.load(open(mp)) if os.path.exists(mp) else {}
        meta["checked"] = {k.split("/")[1]: ("silent" if (v.get("applies") and not v["alarms"]) else v.get("alarms") or "does not apply")
                           for k, v in results.items() if k.startswith(pid + "/")}
        json.dump(meta, open(mp, "w"), indent=1)
    return results


def equiv(pid):
    d = os.path.join(REF, pid)
    chk = os.path.join(d, "check.py")
    outs = {}
    for diff in [None] + sorted(glob.glob(os.path.join(d, "r*.diff"))):
        tmp = scratch()
        try:
            so = glob.glob("/repo/src/pygom/model/*.so")
            for s in so:
                shutil.copy(s, os.path.join(tmp, "src/pygom/model"))
            if diff:
                subprocess.run(["patch", "-p1", "-s", "-d", tmp, "-i", diff], check=True)
            env = dict(os.environ, PYTHONPATH=os.path.join(tmp, "src"))
            r = subprocess.run([PY, chk], cwd=tmp, env=env, capture_output=True, text=True, timeout=1200)
            outs[os.path.basename(diff) if diff else "base"] = (r.returncode, r.stdout)
        finally:
            shutil.rmtree(tmp, ignore_errors=True)
    base = outs["base"]
    for k, v in outs.items():
        print(pid, k, "exit", v[0], "identical" if v == base else "DIFFERENT", len(v[1]), "bytes")
    return all(v == base for v in outs.values())


def table():
    rows = []
    for pid in sorted(os.listdir(REF)):
        mp = os.path.join(REF, pid, "meta.json")
        if not os.path.exists(mp):
            continue
        m = json.load(open(mp))
        for r in m.get("refactorings", []):
            st = m.get("checked", {}).get(r.get("file"), "?")
            rows.append("| %s/%s | %s | %s | %s |" % (pid, r.get("file"), (r.get("kind") or "")[:40].replace("|", "/"),
                                                     (r.get("summary") or "")[:160].replace("|", "/").replace("\n", " "),
                                                     "silent" if st == "silent" else "see meta.json"))
    with open(os.path.join(REF, "README.md"), "w") as fh:
        fh.write("# Behaviour-preserving refactorings (false-alarm controls)\n\nWritten by independent sub-agents that saw only the property text, "
                 "the anchors and a scratch worktree; each `r*.diff` applies alone to the repaired tree, keeps the tests passing and leaves the "
                 "output of `check.py` byte-identical. All 20 checks must exit 0 on each of them (`tools/run_refactors.py check`); the thorough "
                 "tier of the property replays them.\n\n| id | kind | change | all 20 checks |\n|---|---|---|---|\n")
        fh.write("\n".join(rows) + "\n")
    print("wrote README with", len(rows), "rows")


if __name__ == "__main__":
    cmd = sys.argv[1]
    if cmd == "harvest":
        harvest(*sys.argv[2:4])
    elif cmd == "check":
        check(sys.argv[2:])
    elif cmd == "equiv":
        sys.exit(0 if equiv(sys.argv[2]) else 1)
    elif cmd == "table":
        table()
