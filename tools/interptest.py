#!/usr/bin/env python3
"""interptest.py: differential test of the abstract executor (sa/core/absint.py) against python itself.

Development aid, no part of any check.  A corpus of small pure functions - each exercising one piece of python semantics the
analysed code (or a refactoring of it) may use - is executed by python and by the interpreter; results, or the type of the
exception raised, must agree.  Undecided is honest (counted).  Nothing of /repo is involved.

  /venv/bin/python tools/interptest.py [-v] [--only REGEX]
"""
import argparse
import ast
import re
import sys
import textwrap

sys.path.insert(0, "/verif")
from sa.core.absint import Abs, Raised            # noqa: E402
from sa.core.algebra import Undecided             # noqa: E402

CORPUS = r'''
def closure_late_binding():
    fs = []
    for i in range(3):
        fs.append(lambda: i)
    return [f() for f in fs]

def closure_default_binding():
    fs = []
    for i in range(3):
        fs.append(lambda i=i: i)
    return [f() for f in fs]

def comprehension_lambda_late():
    fs = [lambda: k for k in range(3)]
    return [f() for f in fs]

def nested_def_sees_later_assignment():
    def g():
        return x + 1
    x = 10
    return g()

def nested_def_default_at_definition():
    x = 1
    def g(y=x):
        return y
    x = 2
    return g()

def mutable_default_fresh_inner():
    def g(acc=[]):
        acc.append(1)
        return len(acc)
    return [g(), g(), g()]

def walrus_in_condition():
    data = [1, 5, 2]
    if (n := len(data)) > 2:
        return n * 10
    return n

def walrus_in_comprehension():
    out = [y for x in range(5) if (y := x * x) > 3]
    return out, y

def generator_consumed_twice():
    g = (x for x in range(3))
    a = list(g)
    b = list(g)
    return a, b

def zip_consumed_twice():
    z = zip([1, 2], [3, 4])
    return sum(1 for _ in z), sum(1 for _ in z)

def map_filter_once():
    m = map(lambda v: v * 2, [1, 2, 3])
    f = filter(None, [0, 1, 2, 0])
    return list(m), list(m), list(f)

def enumerate_start():
    return [(i, v) for i, v in enumerate("ab", start=5)]

def generator_truthiness():
    g = (x for x in [])
    return bool(g), bool([]), bool(zip())

def len_of_generator():
    return len(x for x in range(3))

def subscript_zip():
    return zip([1], [2])[0]

def next_with_default():
    it = iter([1])
    return next(it), next(it, "end")

def next_exhausted():
    it = iter([])
    return next(it)

def try_except_else_finally():
    log = []
    try:
        log.append("try")
    except ValueError:
        log.append("except")
    else:
        log.append("else")
    finally:
        log.append("finally")
    return log

def try_except_catches_subclass():
    try:
        {}["k"]
    except LookupError:
        return "lookup"
    return "none"

def except_falls_through_stale():
    out = []
    key = "first"
    for name in ["a", "b"]:
        try:
            key = {"a": "A"}[name]
        except KeyError:
            pass
        out.append(key)
    return out

def finally_overrides():
    def f():
        try:
            return 1
        finally:
            pass
    return f()

def for_else_break():
    for i in range(3):
        if i == 1:
            break
    else:
        return "no break"
    return i

def while_else():
    n = 0
    while n < 2:
        n += 1
    else:
        n += 10
    return n

def chained_comparison():
    a, b, c = 1, 2, 2
    return a < b == c, a < b < c, (a < b) == c

def not_in_precedence():
    return not 1 in [2, 3], (not 1) in [False]

def unary_minus_power():
    return -2 ** 2, (-2) ** 2, 2 ** -1

def integer_division():
    return 7 // 2, -7 // 2, 7 / 2, 7 % 3, -7 % 3, divmod(7, 2)

def bool_is_int():
    return True == 1, 0 == False, True + True, 1 in (True, False), 2 in (True, False)

def is_vs_eq_small():
    a = [1]
    b = [1]
    return a == b, a is b, a is a, None is None

def truthiness_zero():
    vals = [0, 0.0, "", [], (), {}, None, 1, "0", [0]]
    return [bool(v) for v in vals]

def or_returns_operand():
    return 0 or "x", 1 and 2, None or [], "a" and 0

def conditional_expression():
    x = 0
    return "t" if x else "f", (x or 5), (x if x is not None else 7)

def list_aliasing():
    a = [1, 2]
    b = a
    b.append(3)
    c = list(a)
    c.append(4)
    d = a[:]
    d += [5]
    return a, b, c, d

def augmented_assign_list_alias():
    a = [1]
    b = a
    b += [2]
    return a

def augmented_assign_tuple_no_alias():
    a = (1,)
    b = a
    b += (2,)
    return a, b

def nested_shallow_copy():
    rows = [[0] * 2] * 2
    rows[0][0] = 9
    return rows

def dict_comprehension_collapses():
    pairs = [("a", 1), ("b", 2), ("a", 3)]
    return {k: v for k, v in pairs}

def dict_order_and_update():
    d = {"b": 1}
    d["a"] = 2
    d.update(c=3)
    d["b"] = 9
    return list(d), list(d.values())

def dict_get_setdefault_pop():
    d = {}
    a = d.setdefault("k", [])
    a.append(1)
    return d, d.get("z"), d.get("z", 0), d.pop("k")

def dict_star_merge():
    a = {"x": 1, "y": 2}
    b = {"y": 3}
    return {**a, **b}, {**b, **a}

def extended_unpacking():
    a, *b, c = [1, 2, 3, 4]
    (d, e), f = (1, 2), 3
    return a, b, c, d, e, f

def star_args_kwargs():
    def f(a, *rest, k=0, **kw):
        return a, rest, k, sorted(kw.items())
    return f(1, 2, 3, k=4, z=5), f(*[1, 2], **{"k": 3})

def keyword_only_missing():
    def f(*, k):
        return k
    return f()

def too_many_args():
    def f(a):
        return a
    return f(1, 2)

def slicing():
    s = [0, 1, 2, 3, 4]
    return s[1:], s[:-1], s[::2], s[::-1], s[-2:], s[10:], s[1:4:2]

def string_ops():
    return "a,b c".replace(",", " ").split(), " x ".strip(), "ab".upper(), "-".join(["a", "b"]), "abc".startswith("ab")

def percent_and_fstring():
    n, x = 3, 1.5
    return "%d items %s" % (n, x), f"{n} items {x!s} {n + 1}", "{} {}".format(n, x), "%s" % (n,)

def str_of_values():
    return str(1), str(1.0), str(None), str(True), str([1, "a"]), repr("a")

def sorted_key_reverse():
    return sorted([3, 1, 2], reverse=True), sorted(["b", "A"], key=str.lower), sorted({2: "x", 1: "y"})

def min_max_sum_any_all():
    return min(3, 1), max([1, 5]), sum([1, 2], 10), any([0, 0]), all([]), any(x > 1 for x in [1, 2])

def range_forms():
    return list(range(3)), list(range(1, 4)), list(range(4, 0, -2)), len(range(10)), list(range(0))

def itertools_functools_operator():
    import itertools, functools, operator
    return (list(itertools.product([1, 2], "ab")), list(itertools.chain([1], (2, 3))), list(itertools.accumulate([1, 2, 3])),
            functools.reduce(operator.add, [1, 2, 3]), functools.reduce(operator.mul, [1, 2, 3], 10),
            functools.partial(operator.sub, 10)(3), list(itertools.islice(itertools.count(5), 3)), list(itertools.repeat("x", 2)))

def from_imports():
    from itertools import product as prod, chain
    from functools import reduce as _reduce
    from operator import add as _add
    return list(prod([0, 1], repeat=2)), list(chain("ab", "c")), _reduce(_add, (1, 2, 3))

def namedtuple_rows():
    from collections import namedtuple
    P = namedtuple("P", "x y")
    p = P(1, y=2)
    a, b = p
    return p.x, p.y, p[0], a + b, p._replace(x=5).x, tuple(p)

def ordered_dict_deque():
    from collections import OrderedDict, deque
    d = OrderedDict([("b", 1), ("a", 2)])
    q = deque([1, 2])
    q.append(3)
    return list(d), list(q)

def isinstance_tuple_of_types():
    return isinstance(1, (int, float)), isinstance(True, int), isinstance("a", (list, tuple)), isinstance(1.0, int)

def int_float_conversion():
    return int(2.9), int(-2.9), float(3), int("7"), round(2.5), round(3.5), round(2.675, 2)

def global_shadowing_builtin():
    sum = 3
    return sum + 1

def class_attribute_like_dict_shared():
    shared = {}
    a = shared
    b = shared
    a.update({"k": 1})
    return b

def tuple_membership_and_index():
    t = ("T", "B")
    return "B" in t, t.index("B"), t.count("T"), ("X" in t)

def index_missing_raises():
    return [1, 2].index(3)

def key_error():
    return {"a": 1}["b"]

def attribute_of_none():
    x = None
    return x.size

def zero_division():
    return 1 / 0

def unpack_mismatch():
    a, b = [1, 2, 3]
    return a

def iterate_none():
    for x in None:
        pass

def int_plus_str():
    return 1 + "a"

def list_times():
    a = [0] * 3
    a[1] = 5
    return a, [1, 2] * 2, "ab" * 2

def nested_functions_nonlocal_read():
    total = [0]
    def add(n):
        total[0] += n
    add(2)
    add(3)
    return total[0]

def lambda_kwargs_defaults():
    f = lambda a, b=2, *c, d=4, **e: (a, b, c, d, sorted(e))
    return f(1), f(1, 3, 5, d=6, z=7)

def early_return_in_loop():
    for i in [1, 2, 3]:
        if i == 2:
            return i
    return -1

def continue_and_break():
    out = []
    for i in range(6):
        if i % 2:
            continue
        if i > 3:
            break
        out.append(i)
    return out

def getattr_default_hasattr():
    class_like = {"a": 1}
    return getattr(class_like, "missing", "dflt"), hasattr(class_like, "keys"), hasattr(class_like, "nope")

def set_semantics():
    s = set([3, 1, 3, 2])
    return sorted(s), len(s), 1 in s

def zip_star_transpose():
    rows = [(1, "a"), (2, "b")]
    nums, letters = zip(*rows)
    return nums, letters, list(zip(*[]))

def enumerate_zip_unpack():
    out = []
    for i, (a, b) in enumerate(zip([1, 2], [3, 4])):
        out.append(i + a * b)
    return out

def reversed_and_sorted_copy():
    a = [3, 1, 2]
    b = sorted(a)
    c = list(reversed(a))
    a.sort()
    return a, b, c

def list_methods():
    a = [1, 2, 3]
    a.insert(0, 0)
    x = a.pop()
    a.remove(1)
    a.extend([7, 8])
    a.reverse()
    return a, x, a.count(7)

def string_formatting_errors():
    return "%d" % "x"

def assert_passes_and_fails():
    assert 1 == 1, "fine"
    assert 1 == 2, "boom"
    return 1

def raise_custom():
    raise ValueError("bad")

def reraise_in_except():
    try:
        raise KeyError("k")
    except KeyError:
        raise TypeError("t")

def exception_as_value():
    try:
        int("x")
    except ValueError as e:
        return type(e).__name__

def handler_order_first_match():
    try:
        [][1]
    except KeyError:
        return "key"
    except IndexError:
        return "index"
    except Exception:
        return "any"

def handler_tuple_and_superclass():
    out = []
    for bad in (lambda: {}["k"], lambda: [][0], lambda: 1 / 0, lambda: int("x")):
        try:
            bad()
        except (KeyError, IndexError):
            out.append("lookup")
        except ArithmeticError:
            out.append("arith")
        except Exception:
            out.append("other")
    return out

def unmatched_handler_propagates():
    try:
        try:
            1 / 0
        except KeyError:
            return "inner"
    except ZeroDivisionError:
        return "outer"

def else_skipped_on_exception():
    log = []
    try:
        try:
            {}["k"]
        except KeyError:
            log.append("caught")
        else:
            log.append("else")
        finally:
            log.append("finally")
    finally:
        log.append("outer-finally")
    return log

def bare_reraise():
    try:
        try:
            [].pop()
        except IndexError:
            raise
    except Exception as e:
        return type(e).__name__

def exception_in_handler_replaces():
    try:
        try:
            {}["k"]
        except KeyError:
            int("x")
    except ValueError:
        return "value"
    except KeyError:
        return "key"

def finally_runs_on_return_and_break():
    log = []
    def f():
        for i in range(3):
            try:
                if i == 1:
                    return "ret"
            finally:
                log.append(i)
    r = f()
    return r, log

def exception_name_unbound_after_handler():
    e = "before"
    try:
        1 / 0
    except ZeroDivisionError as e:
        pass
    try:
        return e
    except NameError:
        return "unbound"

def str_exception_message():
    try:
        raise ValueError("bad value")
    except ValueError as err:
        return str(err), err.args

def isinstance_exception_hierarchy():
    try:
        {}["k"]
    except Exception as e:
        return isinstance(e, KeyError), isinstance(e, LookupError), isinstance(e, ValueError)

def stop_iteration_from_next():
    it = iter([1])
    next(it)
    try:
        next(it)
    except StopIteration:
        return "stopped"

def loop_variable_after_loop():
    for i in range(3):
        pass
    return i

def comprehension_scope_does_not_leak():
    x = "outer"
    _ = [x for x in range(3)]
    return x

def default_arg_evaluated_once_inner_loop():
    fs = []
    for n in range(2):
        def f(acc=[]):
            acc.append(n)
            return acc
        fs.append(f)
    return fs[0](), fs[0](), fs[1]()

def string_multiplication_and_in():
    return "ab" in "cabd", "x" not in "abc", "a" * 0, "abc"[1], "abc"[-1], "abc"[::-1]

def tuple_comparison_and_sorting():
    return (1, 2) < (1, 3), sorted([(2, "a"), (1, "b"), (1, "a")]), max([(1, "x"), (1, "y")])

def dict_views_and_items():
    d = {"a": 1, "b": 2}
    return sorted(d.items()), list(d.keys()), sum(d.values()), "a" in d, 1 in d, len(d)

def nested_data_mutation_through_alias():
    d = {"k": [1]}
    v = d["k"]
    v.append(2)
    e = dict(d)
    e["k"].append(3)
    return d

def float_int_equality_and_hash_keys():
    d = {1: "int"}
    d[1.0] = "float"
    d[True] = "bool"
    return d, 1 == 1.0, len(d)

def abs_and_pow_and_divmod():
    return abs(-3), abs(2.5), pow(2, 3), pow(2, -1), divmod(-7, 2), 2 ** 0.5 > 1.41

def any_all_short_circuit_generators():
    seen = []
    def mark(v):
        seen.append(v)
        return v
    r = any(mark(v) for v in [0, 1, 2])
    return r, seen

def generator_function_and_yield_from():
    def ends(pairs):
        for a, b in pairs:
            yield a
            yield b
    def both():
        yield from ends([(1, 2)])
        yield 3
    g = both()
    first = list(g)
    return first, list(g), list(ends([(5, 6), (7, 8)]))

def generator_function_accumulate_vs_assign():
    def ends():
        yield (0, 1)
        yield (0, 2)
        yield (1, 5)
    acc, last = {}, {}
    for k, v in ends():
        acc[k] = acc.get(k, 0) + v
        last[k] = v
    return acc, last
'''


def real_results():
    ns = {}
    exec(compile(CORPUS, "<corpus>", "exec"), ns)
    out = {}
    for name, fn in ns.items():
        if callable(fn) and not name.startswith("_") and getattr(fn, "__module__", None) is None or (callable(fn) and fn.__class__.__name__ == "function"):
            try:
                out[name] = ("value", fn())
            except Exception as e:          # noqa: BLE001
                out[name] = ("raise", type(e).__name__)
    return out


def norm(v):
    if isinstance(v, (list, tuple)):
        return [norm(x) for x in v]
    if isinstance(v, dict):
        return {"<dict>": [[norm(k), norm(x)] for k, x in v.items()]}
    if isinstance(v, float) and v == int(v):
        return float(v)
    if isinstance(v, (set, frozenset)):
        return {"<set>": sorted(norm(x) for x in v)}
    return v


def model_results(only):
    tree = ast.parse(textwrap.dedent(CORPUS))
    out = {}
    for node in tree.body:
        if not isinstance(node, ast.FunctionDef) or (only and not re.search(only, node.name)):
            continue
        ab = Abs({}, {}, {}, None, budget=200000)
        try:
            kind, val = ab.run_function(node, {})
            out[node.name] = ("value", val) if kind == "return" else ("raise", str(val).split("(")[0])
        except Undecided as e:
            out[node.name] = ("undecided", str(e))
        except Raised as e:
            out[node.name] = ("raise", str(e.exc).split("(")[0])
        except Exception as e:              # noqa: BLE001
            out[node.name] = ("crash", "%s: %s" % (type(e).__name__, e))
    return out


def main():
    ap = argparse.ArgumentParser()
    ap.add_argument("-v", action="store_true")
    ap.add_argument("--only")
    a = ap.parse_args()
    real = real_results()
    model = model_results(a.only)
    tally = {"ok": 0, "undecided": 0, "wrong": 0}
    for name, got in model.items():
        want = real.get(name)
        if want is None:
            continue
        if got[0] == "undecided":
            tally["undecided"] += 1
            if a.v:
                print("UNDECIDED %-40s %s" % (name, got[1][:100]))
            continue
        same = got[0] == want[0] and (norm(got[1]) == norm(want[1]) if got[0] == "value" else got[1] == want[1])
        if same:
            tally["ok"] += 1
        else:
            tally["wrong"] += 1
            print("WRONG     %-40s python: %s %r\n%50s model:  %s %r" % (name, want[0], want[1], "", got[0], got[1]))
    print("summary:", tally)
    return 1 if tally["wrong"] else 0


if __name__ == "__main__":
    sys.exit(main())
