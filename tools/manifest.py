#!/usr/bin/env python3
"""Regenerate /verif/MANIFEST.json from the table in sa/specs/manifest_table.py
and validate it against the schema when jsonschema is importable."""
import json, os, sys
HERE = os.path.dirname(os.path.dirname(os.path.abspath(__file__)))
sys.path.insert(0, HERE)
from sa.specs.manifest_table import CLAIMED, NOT_APPLICABLE, ENGINES  # noqa

PY = "/venv/bin/python"
checks = []
for pid in sorted(CLAIMED):
    c = CLAIMED[pid]
    checks.append({
        "property_id": pid,
        "quick_cmd": "%s -m sa.run %s --tier quick" % (PY, pid),
        "thorough_cmd": "%s -m sa.run %s --tier thorough" % (PY, pid),
        "evidence_file": "/verif/evidence/%s.json" % pid,
        "replay_cmd_template": PY + " -m sa.run --replay {path}",
        "engine": "sa",
        "level_claimed": {"category": "other", "text": c["level"], "design_ref": "DESIGN.md section 6, " + pid},
        "level_note": c["note"],
        "technique": c["technique"],
    })
props = [json.loads(l)["id"] for l in open(os.path.join(HERE, "properties.jsonl"))]
na = [{"property_id": p, "reason": NOT_APPLICABLE.get(p, "check under construction (see DESIGN.md section 6); not yet claimed")}
      for p in props if p not in CLAIMED]
man = {
    "version": 1,
    "setup_cmd": PY + " -m sa.run --selfcheck",
    "hooks": {
        "guard": "PYGOM_VERIF",
        "enable": "none needed: every check parses /repo/src/pygom with ast on each run and never imports or runs it",
        "baseline_off_cmd": "cd /repo && /venv/bin/python -m pytest -ra -q -p no:cacheprovider --timeout=900 --continue-on-collection-errors",
        "source_commits": [],
        "add_only": True,
    },
    "engines": ENGINES,
    "checks": checks,
    "not_applicable": na,
    "notes": ("Technique family: static analysis (ast-based CFG, reaching definitions, effect tables, index-space "
              "and layout typing, polynomial canonical forms). No hooks in /repo; /repo carries only 'fix:' commits "
              "listed in known_findings.json. Exit 0 held / 1 VIOLATION / 2 ANALYSIS-ERROR."),
}
out = os.path.join(HERE, "MANIFEST.json")
json.dump(man, open(out, "w"), indent=1)
try:
    import jsonschema
    jsonschema.validate(man, json.load(open("/root/.vp/MANIFEST.schema.json")))
    print("MANIFEST valid; claimed:", sorted(CLAIMED))
except ImportError:
    print("MANIFEST written (jsonschema not importable here); claimed:", sorted(CLAIMED))
