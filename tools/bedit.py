#!/usr/bin/env python3
"""byte-preserving exact replacement:  bedit.py FILE <<< JSON [[old,new],...]
Old/new are given with \n; they are converted to the file's own line ending."""
import json, sys
path = sys.argv[1]
pairs = json.load(sys.stdin)
data = open(path, 'rb').read()
crlf = b'\r\n' in data
for old, new in pairs:
    o, n = old.encode(), new.encode()
    if crlf:
        o, n = o.replace(b'\n', b'\r\n'), n.replace(b'\n', b'\r\n')
    if data.count(o) != 1:
        sys.exit("pattern occurs %d times: %r" % (data.count(o), old[:60]))
    data = data.replace(o, n)
open(path, 'wb').write(data)
print("edited", path, "CRLF" if crlf else "LF")
