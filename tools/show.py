#!/usr/bin/env python3
import sys, importlib; sys.path.insert(0,'/verif')
from sa.core.source import Repo
from sa import report
prop=sys.argv[1]
repo=Repo(sys.argv[2] if len(sys.argv)>2 else None); res=report.Result(prop,repo)
from sa.run import _register_abstract_classes; _register_abstract_classes(repo)
importlib.import_module('sa.checks.'+prop).check(repo,res,'quick')
for o in res.obs: print(o.status[:4], o.rule, o.construct.split('::',1)[-1][:90], '|', o.msg[:110])
print(res.floors)
