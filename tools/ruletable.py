#!/usr/bin/env python3
"""ruletable.py: regenerate section 18.1 of DESIGN.md (rule table per property) from the checks' own output on the current tree"""
import importlib, re, sys
sys.path.insert(0, '/verif')
from sa.core.source import Repo
from sa import report
from sa.run import _register_abstract_classes

rows, total = [], 0
for i in range(1, 21):
    prop = "C%02d" % i
    repo = Repo(None)
    _register_abstract_classes(repo)
    res = report.Result(prop, repo)
    importlib.import_module('sa.checks.' + prop).check(repo, res, 'quick')
    by = {}
    for o in res.obs:
        by.setdefault(o.rule, []).append(o)
    for rule, obs in by.items():
        first = next((o for o in obs if o.status == report.HOLDS), obs[0])
        rows.append("| %s | %s | %d | %s |" % (prop, rule, len(obs), first.msg[:110].replace("|", "/")))
        total += len(obs)
table = "| property | rule | obligations | what an obligation states (first one) |\n|---|---|---|---|\n" + "\n".join(rows) + \
        "\n\nTotal obligations on the current tree (quick tier): %d.\n" % total
p = "/verif/DESIGN.md"
s = open(p).read()
a = s.index("| property | rule | obligations | what an obligation states (first one) |")
b = s.index("### 18.2 Counts")
s = s[:a] + table + "\n" + s[b:]
open(p, "w").write(s)
print("rows", len(rows), "total", total)
