#!/usr/bin/env python3
"""kf.py fixed PROP RULE CONSTRUCT 'commit subject fragment' 'what failed'
   kf.py known PROP RULE CONSTRUCT 'what fails'"""
import json, subprocess, sys
p = '/verif/known_findings.json'
k = json.load(open(p))
mode, prop, rule, construct = sys.argv[1:5]
if mode == 'fixed':
    frag, what = sys.argv[5:7]
    out = subprocess.run(['git', '-C', '/repo', 'log', '--format=%h %s'], capture_output=True, text=True).stdout.splitlines()
    sha = [l.split()[0] for l in out if frag in l]
    assert len(sha) == 1, (frag, sha)
    e = {"property": prop, "rule": rule, "construct": construct, "status": "fixed", "commit": sha[0],
         "line": "fixed: property=%s %s %s" % (prop, sha[0], what), "what": what}
else:
    e = {"property": prop, "rule": rule, "construct": construct, "status": "known", "what": sys.argv[5]}
k = [x for x in k if not (x["property"] == prop and x["rule"] == rule and x["construct"] == construct)]
k.append(e)
json.dump(k, open(p, 'w'), indent=1)
print("recorded", mode, prop, rule, construct)
