#!/usr/bin/env python3
"""try_variant.py PROP[,PROP..] relfile OLD NEW [relfile OLD NEW ...]
Copy /repo/src to a scratch dir, apply exact textual replacements (LF-normalised), run
the checks on the copy (static only), print the outcome, remove the copy."""
import os, shutil, subprocess, sys, tempfile
props = sys.argv[1].split(",")
edits = sys.argv[2:]
tmp = tempfile.mkdtemp(prefix="sa_variant_")
try:
    shutil.copytree("/repo/src", os.path.join(tmp, "src"), ignore=shutil.ignore_patterns("*.so", "__pycache__", "*.c"))
    for i in range(0, len(edits), 3):
        rel, old, new = edits[i:i+3]
        p = os.path.join(tmp, "src", "pygom", rel)
        s = open(p, newline="").read().replace("\r\n", "\n")
        old = old.encode().decode("unicode_escape"); new = new.encode().decode("unicode_escape")
        if s.count(old) < 1:
            sys.exit("pattern not found in %s: %r" % (rel, old))
        s = s.replace(old, new, 1)
        compile(s, p, "exec")
        open(p, "w").write(s)
    for pr in props:
        r = subprocess.run(["/venv/bin/python", "-m", "sa.run", pr, "--root", tmp, "--no-evidence"], cwd="/verif", capture_output=True, text=True)
        print("== %s exit=%d" % (pr, r.returncode))
        print("\n".join(l for l in r.stdout.splitlines() if not l.startswith("OBSERVATION"))[:3000])
        if r.stderr: print(r.stderr[-2000:])
finally:
    shutil.rmtree(tmp, ignore_errors=True)
