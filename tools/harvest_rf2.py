#!/usr/bin/env python3
"""harvest_rf2.py <prefix> <tag> Cxx ... : copy /tmp/<prefix>_Cxx/refactor_out/{r*.diff,check.py,meta.json} to /verif/refactors/Cxx/<tag>_*"""
import glob, os, shutil, sys
prefix, tag = sys.argv[1:3]
for pid in sys.argv[3:]:
    src = '/tmp/%s_%s/refactor_out' % (prefix, pid)
    dst = '/verif/refactors/%s' % pid
    os.makedirs(dst, exist_ok=True)
    n = 0
    for f in sorted(glob.glob(src + '/r*.diff')):
        shutil.copy(f, os.path.join(dst, tag + '_' + os.path.basename(f))); n += 1
    for f in ('check.py', 'meta.json'):
        if os.path.exists(os.path.join(src, f)):
            shutil.copy(os.path.join(src, f), os.path.join(dst, tag + '_' + f))
    print(pid, n, 'diffs')
