#!/usr/bin/env python3
"""on_patch.py <script.py> <patch-or-seed-dir|revert:COMMIT> ... : run a dev script against scratch copies of /repo/src with one patch applied each"""
import os, shutil, subprocess, sys, tempfile
script = sys.argv[1]
for s in sys.argv[2:]:
    tmp = tempfile.mkdtemp(prefix="sa_op_")
    try:
        shutil.copytree("/repo/src", os.path.join(tmp, "src"), ignore=shutil.ignore_patterns("*.so", "__pycache__", "*.c"))
        if s.startswith("revert:"):
            d = subprocess.run(["git", "-C", "/repo", "show", s.split(":")[1], "--", "src"], capture_output=True).stdout
            r = subprocess.run(["patch", "-R", "-p1", "-s", "-d", tmp], input=d, capture_output=True)
        else:
            p = os.path.join(s, "patch.diff") if os.path.isdir(s) else s
            r = subprocess.run(["patch", "-p1", "-s", "-d", tmp, "-i", os.path.abspath(p)], capture_output=True)
        print("==", s, "(patch failed)" if r.returncode else "")
        out = subprocess.run(["/venv/bin/python", script, tmp], capture_output=True, text=True)
        print((out.stdout + out.stderr)[-1500:])
    finally:
        shutil.rmtree(tmp, ignore_errors=True)
