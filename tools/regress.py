#!/usr/bin/env python3
"""Static regression of the checker itself (development tool; nothing here is a registered check).

  regress.py [seeds] [refactors] [variants] [reverts] [-j N] [--only REGEX] [-v]

 seeds      every /verif/seeded/<id>/patch.diff applied to a scratch copy: the seed's own property must report a VIOLATION
 refactors  every /verif/refactors/<pid>/r*.diff applied alone: all 20 checks must be silent (exit-0 class)
 variants   sa/selftest/variants.py: faults must be reported by their property, refactorings must be silent
 reverts    each `fix:` commit of /repo reverted on a scratch copy: the property recorded for it in known_findings.json must fire

All analysis is in-process and static (the scratch copies are parsed, never imported).
"""
import glob
import importlib
import json
import os
import re
import shutil
import subprocess
import sys
import tempfile
from concurrent.futures import ProcessPoolExecutor

VERIF = os.path.dirname(os.path.dirname(os.path.abspath(__file__)))
sys.path.insert(0, VERIF)
PROPS = ["C%02d" % i for i in range(1, 21)]


def scratch():
    tmp = tempfile.mkdtemp(prefix="sa_rg_")
    shutil.copytree("/repo/src", os.path.join(tmp, "src"), ignore=shutil.ignore_patterns("__pycache__", "*.pyc", "*.so", "*.c"))
    return tmp


def analyse(tmp, props=PROPS):
    from sa.core.source import Repo, AnalysisError
    from sa import report
    from sa.run import _register_abstract_classes
    out = {}
    known_all = report.load_known()
    for prop in props:
        try:
            repo = Repo(tmp)
            _register_abstract_classes(repo)
            mod = importlib.import_module("sa.checks." + prop)
            r = report.Result(prop, repo)
            mod.check(repo, r, "quick")
            known = {(k["rule"], k["construct"]) for k in known_all if k.get("property") == prop and k.get("status") == "known"}
            viol = [(o.rule, o.construct.split("::", 1)[-1][:90], o.msg[:160]) for o in r.obs if o.status == report.VIOLATED and (o.rule, o.construct) not in known]
            und = [(o.rule, o.construct.split("::", 1)[-1][:90], o.msg[:160]) for o in r.obs if o.status == report.UNDECIDED]
            if viol:
                out[prop] = ("V", viol[:3])
            elif und:
                out[prop] = ("E", und[:3])
        except AnalysisError as e:
            out[prop] = ("E", [("anchor", "", str(e)[:160])])
        except Exception as e:
            import traceback
            out[prop] = ("X", [(type(e).__name__, "", (str(e) + " @ " + traceback.format_exc().strip().splitlines()[-3].strip())[:200])])
    return out


def job(j):
    kind, name, payload, expect = j
    tmp = scratch()
    try:
        if kind == "patch":
            r = subprocess.run(["patch", "-p1", "-s", "-d", tmp, "-i", payload], capture_output=True, text=True)
            if r.returncode != 0:
                return (kind, name, "STALE", "patch does not apply: " + (r.stdout + r.stderr)[-150:])
        elif kind == "rpatch":
            r = subprocess.run(["patch", "-R", "-p1", "-s", "-d", tmp], input=payload, capture_output=True)
            if r.returncode != 0:
                return (kind, name, "STALE", "reverse patch does not apply")
        elif kind == "edit":
            rel, old, new = payload
            p = os.path.join(tmp, "src", "pygom", rel)
            with open(p, newline="") as fh:
                s = fh.read().replace("\r\n", "\n")
            if s.count(old) < 1:
                return (kind, name, "STALE", "pattern not found")
            s = s.replace(old, new, 1)
            try:
                compile(s, p, "exec")
            except SyntaxError as e:
                return (kind, name, "STALE", "does not compile")
            with open(p, "w") as fh:
                fh.write(s)
        res = analyse(tmp)
        if isinstance(expect, str) and expect.startswith("silent-own:"):
            p_ = expect.split(":")[1]
            if p_ in res:
                return (kind, name, "ALARM", {p_: res[p_]})
            return (kind, name, "ok", None)
        if expect == "silent":
            if res:
                return (kind, name, "ALARM", res)
            return (kind, name, "ok", None)
        else:  # expect = property that must fire
            props = expect if isinstance(expect, (list, tuple)) else [expect]
            if any(res.get(p, ("", None))[0] == "V" for p in props):
                return (kind, name, "ok", {p: v for p, v in res.items() if v[0] != "V"} or None)
            return (kind, name, "MISS", res)
    finally:
        shutil.rmtree(tmp, ignore_errors=True)


def collect(which, only):
    jobs = []
    if "seeds" in which:
        for d in sorted(glob.glob(os.path.join(VERIF, "seeded", "C*-*"))):
            meta = json.load(open(os.path.join(d, "meta.json")))
            if meta.get("not_a_violation"):
                continue
            jobs.append(("patch", "seed:" + os.path.basename(d), os.path.join(d, "patch.diff"), meta["property"]))
    if "refactors" in which:
        for d in sorted(glob.glob(os.path.join(VERIF, "refactors", "C*", "*.diff"))):
            meta_p = os.path.join(os.path.dirname(d), "meta.json")
            skip = {}
            if os.path.exists(meta_p):
                skip = json.load(open(meta_p)).get("not_equivalent", {})
            if os.path.basename(d) in skip:
                continue
            jobs.append(("patch", "refactor:%s/%s" % (os.path.basename(os.path.dirname(d)), os.path.basename(d)), d, "silent"))
    if "variants" in which:
        from sa.selftest.variants import VARIANTS
        for n, v in enumerate(VARIANTS):
            prop, rel, old, new, rule = v
            jobs.append(("edit", "variant:%s:%d:%s" % (prop, n, rule or "refactoring"), (rel, old, new), "silent-own:" + prop if rule is None else prop))
    if "reverts" in which:
        kf = json.load(open(os.path.join(VERIF, "known_findings.json")))
        by_commit = {}
        for k in kf:
            if k.get("status") == "fixed" and k.get("commit"):
                by_commit.setdefault(k["commit"][:7], set()).add(k["property"])
        log = subprocess.run(["git", "-C", "/repo", "log", "--format=%h %s", "--grep", "^fix:"], capture_output=True, text=True).stdout.splitlines()
        for ln in log:
            c, subj = ln.split(" ", 1)
            diff = subprocess.run(["git", "-C", "/repo", "show", c, "--", "src"], capture_output=True).stdout
            props = sorted(by_commit.get(c[:7], set())) or PROPS
            jobs.append(("rpatch", "revert:%s %s" % (c, subj[:50]), diff, props))
    if only:
        jobs = [j for j in jobs if re.search(only, j[1])]
    return jobs


def main():
    a = sys.argv[1:]
    j = 14
    only = None
    verbose = False
    which = []
    while a:
        if a[0] == "-j":
            j = int(a[1]); a = a[2:]
        elif a[0] == "--only":
            only = a[1]; a = a[2:]
        elif a[0] == "-v":
            verbose = True; a = a[1:]
        else:
            which.append(a[0]); a = a[1:]
    if not which:
        which = ["seeds", "refactors", "variants", "reverts"]
    jobs = collect(which, only)
    print("jobs:", len(jobs))
    bad = 0
    tally = {}
    def batches():
        # a fresh pool for every batch: worker processes do not live long enough to grow (max_tasks_per_child hangs on python 3.12.1)
        step = j * 8
        for k in range(0, len(jobs), step):
            with ProcessPoolExecutor(j) as ex:
                for item in ex.map(job, jobs[k:k + step], chunksize=1):
                    yield item
    if True:
        for kind, name, status, detail in batches():
            tally[status] = tally.get(status, 0) + 1
            if status == "ok" and not (verbose and detail):
                continue
            if status != "ok":
                bad += 1
            print("%-6s %s" % (status, name))
            if isinstance(detail, dict):
                for p, (k, items) in sorted(detail.items()):
                    for it in items[:2]:
                        print("        %s %s %s %s | %s" % (p, k, it[0], it[1], it[2][:150]))
            elif detail:
                print("        ", detail)
    print("summary:", tally)
    return 1 if bad else 0


if __name__ == "__main__":
    sys.exit(main())
