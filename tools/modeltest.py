#!/usr/bin/env python3
"""modeltest.py: differential test of the checker's numpy models (sa/core/numarr.py, sa/core/symarr.py) against numpy itself.

Development aid, not a registered check and no part of any verdict: it runs numpy (from /venv) and the models on random small
integer-valued arrays of every shape class the models accept - vector, column, row, matrix - and reports

  WRONG     the model returns something else than numpy (value or shape)
  FALSE-RAISE  the model raises a program-level error where numpy computes a result
  MISSED-RAISE numpy raises, the model returns a value

A model that answers Undecided is honest and only counted.  Nothing of /repo is imported.

  /venv/bin/python tools/modeltest.py [-n 40] [--only REGEX] [-v]
"""
import argparse
import itertools
import random
import re
import sys

import numpy as np

sys.path.insert(0, "/verif")
from sa.core import algebra as A                     # noqa: E402
from sa.core.numarr import NumArr, num_summaries     # noqa: E402
from sa.core.symarr import SymArr, np_summaries      # noqa: E402

R = random.Random(12345)
SHAPES = [(3,), (4,), (1,), (3, 1), (1, 4), (3, 4), (2, 2), (4, 3)]


def rnd(shape, lo=-3, hi=4, allow_zero=True):
    def v():
        x = R.randint(lo, hi)
        while not allow_zero and x == 0:
            x = R.randint(lo, hi)
        return float(x)
    if len(shape) == 1:
        return [v() for _ in range(shape[0])]
    return [[v() for _ in range(shape[1])] for _ in range(shape[0])]


def shape_of(x):
    return np.asarray(x).shape


# ------------------------------------------------------------------ value conversion
def to_num(x):
    if isinstance(x, (list, tuple)) and x and not isinstance(x[0], str):
        return NumArr(list(x) if not isinstance(x[0], (list, tuple)) else [list(r) for r in x])
    return x


def to_sym(x):
    if isinstance(x, (list, tuple)):
        return SymArr.of([list(r) for r in x] if x and isinstance(x[0], (list, tuple)) else list(x))
    return x


class Symbolic(Exception):
    """the symbolic model answered with an expression (exp(x), |x|): nothing to compare numerically"""


def from_model(v):
    if isinstance(v, NumArr):
        return np.array(v.tolist(), dtype=float)
    if isinstance(v, SymArr):
        flat = []
        for e in v.flat:
            if isinstance(e, bool):
                flat.append(float(e))
                continue
            e = A.lift(e)
            if not e.is_const():
                raise Symbolic()
            flat.append(float(e.const_value()))
        return np.array(flat, dtype=float).reshape(v.shape)
    if isinstance(v, A.Rat):
        return np.array(float(v.const_value()))
    if isinstance(v, (tuple, list)):
        return [from_model(x) for x in v]
    return np.array(v, dtype=float) if isinstance(v, (int, float, bool)) else v


def same(a, b):
    if isinstance(a, (list, tuple)) or isinstance(b, (list, tuple)):
        if not (isinstance(a, (list, tuple)) and isinstance(b, (list, tuple)) and len(a) == len(b)):
            return False
        return all(same(x, y) for x, y in zip(a, b))
    a, b = np.asarray(a, dtype=float), np.asarray(b, dtype=float)
    return a.shape == b.shape and np.allclose(a, b, equal_nan=True)


# ------------------------------------------------------------------ cases: name -> list of argument generators
def arr(shapes=SHAPES, **k):
    return lambda: rnd(R.choice(shapes), **k)


def vec(**k):
    return arr([(3,), (4,), (1,)], **k)


def mat(**k):
    return arr([(3, 4), (2, 2), (4, 3), (3, 1), (1, 4)], **k)


def pair_b():
    """two arrays that broadcast (or sometimes do not)"""
    a = R.choice(SHAPES)
    cands = [a, (a[-1],), (1,)] + ([(a[0], 1), (1, a[1])] if len(a) == 2 else [(4,), (3, 1)])
    return rnd(a), rnd(R.choice(cands))


UNARY = ["np.abs", "np.absolute", "np.negative", "np.sign", "np.square", "np.floor", "np.ceil", "np.rint", "np.exp", "np.isnan", "np.isinf", "np.isfinite",
         "np.isposinf", "np.isneginf", "np.logical_not", "np.ravel", "np.transpose", "np.copy", "np.array", "np.asarray", "np.atleast_1d", "np.zeros_like",
         "np.ones_like", "np.shape", "np.size", "np.ndim", "np.squeeze", "np.sum", "np.mean", "np.min", "np.max", "np.amin", "np.amax",
         "np.all", "np.any", "np.count_nonzero", "np.flatnonzero", "np.nonzero", "np.cumsum", "np.diff", "np.argmin", "np.argmax", "np.sort", "np.unique",
         "np.diag"]
BINARY = ["np.add", "np.subtract", "np.multiply", "np.minimum", "np.maximum", "np.logical_and", "np.logical_or", "np.append", "np.isin", "np.union1d",
          "np.array_equal", "np.power", "np.mod", "np.remainder"]


def cases():
    out = []
    for n in UNARY:
        out.append((n, lambda: (arr()(),), {}))
    for n in BINARY:
        out.append((n, lambda: pair_b(), {}))
    out.append(("np.divide", lambda: (arr()(), arr(allow_zero=False)()), {}))
    out.append(("np.where", lambda: (lambda a: ([[x > 0 for x in r] for r in a] if isinstance(a[0], list) else [x > 0 for x in a], a, 7.0))(arr()()), {}))
    out.append(("np.where", lambda: (lambda a, b: ([[x > 0 for x in r] for r in a] if isinstance(a[0], list) else [x > 0 for x in a], a, b))(*pair_b()), {}))
    out.append(("np.where", lambda: ((lambda a: [[x > 0 for x in r] for r in a] if isinstance(a[0], list) else [x > 0 for x in a])(arr()()),), {}))
    out.append(("np.clip", lambda: (arr()(), -1.0, 2.0), {}))
    for ax in (None, 0, 1, -1):
        out.append(("np.sum", lambda: (mat()(),), {"axis": ax}))
        out.append(("np.mean", lambda: (mat()(),), {"axis": ax}))
        out.append(("np.take", lambda: (lambda a: (a, [0, len(a[0]) - 1 if False else 0]))(mat()()), {"axis": ax}))
    out.append(("np.take", lambda: (vec()(), [0, 0]), {}))
    out.append(("np.dot", lambda: (lambda s: (rnd((s[0], s[1])), rnd((s[1], s[2]))))((R.randint(1, 3), R.randint(1, 3), R.randint(1, 3))), {}))
    out.append(("np.dot", lambda: (lambda n: (rnd((n,)), rnd((n,))))(R.randint(1, 4)), {}))
    out.append(("np.dot", lambda: (lambda s: (rnd((s[0], s[1])), rnd((s[1],))))((R.randint(1, 3), R.randint(1, 3))), {}))
    out.append(("np.matmul", lambda: (lambda s: (rnd((s[0], s[1])), rnd((s[1], s[2]))))((R.randint(1, 3), R.randint(1, 3), R.randint(1, 3))), {}))
    out.append(("np.outer", lambda: (vec()(), vec()()), {}))
    out.append(("np.kron", lambda: (mat()(), mat()()), {}))
    out.append(("np.reshape", lambda: (rnd((3, 4)), R.choice([(4, 3), (12,), (2, 6), (-1,), (6, -1), (5, 2)])), {}))
    out.append(("np.reshape", lambda: (rnd((3, 4)), R.choice([(4, 3), (12,), (2, 6)])), {"order": "F"}))
    out.append(("np.swapaxes", lambda: (mat()(), 0, 1), {}))
    out.append(("np.concatenate", lambda: ((vec()(), vec()()),), {}))
    out.append(("np.concatenate", lambda: ((rnd((2, 3)), rnd((1, 3))),), {}))
    out.append(("np.concatenate", lambda: ((rnd((2, 3)), rnd((2, 1))),), {"axis": 1}))
    out.append(("np.hstack", lambda: ((vec()(), vec()()),), {}))
    out.append(("np.hstack", lambda: ((rnd((2, 3)), rnd((2, 1))),), {}))
    out.append(("np.vstack", lambda: ((rnd((3,)), rnd((3,))),), {}))
    out.append(("np.vstack", lambda: ((rnd((2, 3)), rnd((1, 3))),), {}))
    out.append(("np.column_stack", lambda: ((rnd((3,)), rnd((3,))),), {}))
    out.append(("np.stack", lambda: ((rnd((3,)), rnd((3,))),), {}))
    out.append(("np.stack", lambda: ((rnd((3,)), rnd((3,))),), {"axis": 1}))
    out.append(("np.append", lambda: (mat()(), vec()()), {}))
    out.append(("np.insert", lambda: (vec()(), 0, 9.0), {}))
    out.append(("np.repeat", lambda: (vec()(), 2), {}))
    out.append(("np.tile", lambda: (vec()(), 2), {}))
    out.append(("np.full", lambda: (R.choice([3, (2, 3)]), 2.5), {}))
    out.append(("np.zeros", lambda: (R.choice([3, (2, 3)]),), {}))
    out.append(("np.ones", lambda: (R.choice([3, (2, 3)]),), {}))
    out.append(("np.eye", lambda: (R.randint(1, 3),), {}))
    out.append(("np.identity", lambda: (R.randint(1, 3),), {}))
    out.append(("np.arange", lambda: (R.randint(0, 4),), {}))
    out.append(("np.arange", lambda: (1, R.randint(1, 5)), {}))
    out.append(("np.searchsorted", lambda: (sorted(vec()()), R.choice([0.0, 1.0, -5.0, 9.0])), {}))
    out.append(("np.searchsorted", lambda: (sorted(vec()()), vec()()), {"side": "right"}))
    out.append(("np.digitize", lambda: (vec()(), sorted(set(vec()()))), {}))
    out.append(("np.broadcast_to", lambda: (R.choice([rnd((3,)), rnd((1,)), rnd((2, 1))]), (2, 3)), {}))
    out.append(("np.tensordot", lambda: (rnd((2, 3)), rnd((3, 2))), {"axes": 1}))
    out.append(("np.einsum", lambda: ("ij,jk->ik", rnd((2, 3)), rnd((3, 2))), {}))
    out.append(("np.einsum", lambda: ("ij,ij->i", rnd((2, 3)), rnd((2, 3))), {}))
    out.append(("np.cumsum", lambda: (vec()(),), {}))
    for ax in (None, 0, 1, -1):
        out.append(("np.sort", lambda: (mat()(),), {"axis": ax}))
    out.append(("np.interp", lambda: (R.choice([0.5, 1.5, -1.0, 9.0]), [0.0, 1.0, 2.0], vec()()[:3] + [0.0] * 3), {}))
    return out


INDEX_KEYS = [
    (0,), (-1,), (slice(None), 0), (slice(1, None),), ([0, 1],), ([0, 1], [1, 0]), (slice(None), [0, 1]), ([1, 0], slice(None)), (Ellipsis, 0), (0, Ellipsis),
    (None, slice(None)), (slice(None), None), ([True, False, True],), (slice(None), [True, False, True, False]), (1, [0, 2]), ([0, 2], 1),
]


def run(n, only, verbose):
    models = {"numarr": (num_summaries(), to_num), "symarr": (np_summaries(), to_sym)}
    stats = {"ok": 0, "undecided": 0, "skipped": 0}
    bad = []
    for name, gen, kw in cases():
        if only and not re.search(only, name):
            continue
        fn = np
        for part in name.split(".")[1:]:
            fn = getattr(fn, part)
        for mname, (summ, conv) in models.items():
            if name not in summ:
                stats["skipped"] += 1
                continue
            for _ in range(n):
                args = gen()
                try:
                    want = ("value", fn(*[np.array(a) if isinstance(a, list) else (tuple(np.array(x) for x in a) if isinstance(a, tuple) and a and isinstance(a[0], list) else a) for a in args], **kw))
                except Exception as e:
                    want = ("raise", type(e).__name__)
                try:
                    margs = [conv(a) if isinstance(a, list) else (tuple(conv(x) for x in a) if isinstance(a, tuple) and a and isinstance(a[0], list) else a) for a in args]
                    got = ("value", from_model(summ[name](*margs, **kw)))
                except A.Undecided:
                    stats["undecided"] += 1
                    continue
                except Symbolic:
                    stats["skipped"] += 1
                    continue
                except (ValueError, IndexError, TypeError, ZeroDivisionError) as e:
                    got = ("raise", type(e).__name__)
                except Exception as e:
                    got = ("crash", "%s: %s" % (type(e).__name__, e))
                if want[0] == "value" and got[0] == "value":
                    wv = want[1]
                    wv = [np.asarray(x) for x in wv] if isinstance(wv, tuple) else wv
                    if same(got[1], wv):
                        stats["ok"] += 1
                    else:
                        bad.append(("WRONG", mname, name, kw, args, got[1], wv))
                elif want[0] == "value":
                    bad.append(("FALSE-RAISE" if got[0] == "raise" else "CRASH", mname, name, kw, args, got[1], want[1]))
                elif got[0] == "value":
                    bad.append(("MISSED-RAISE", mname, name, kw, args, got[1], want[1]))
                else:
                    stats["ok"] += 1
    # indexing of the symbolic arrays
    if not only or re.search(only, "index"):
        for shape in [(3, 4), (3,)]:
            base = np.arange(1.0, 1 + int(np.prod(shape))).reshape(shape)
            sa_ = SymArr.of(base.tolist())
            for key in INDEX_KEYS:
                k = key if len(key) > 1 else key[0]
                try:
                    want = ("value", base[k])
                except Exception as e:
                    want = ("raise", type(e).__name__)
                try:
                    got = ("value", from_model(sa_[k]))
                except A.Undecided:
                    stats["undecided"] += 1
                    continue
                except (ValueError, IndexError, TypeError) as e:
                    got = ("raise", type(e).__name__)
                if want[0] != got[0] or (want[0] == "value" and not same(got[1], want[1])):
                    bad.append(("WRONG-INDEX", "symarr", "a%s[%r]" % (shape, key), {}, (), got[1], want[1]))
                else:
                    stats["ok"] += 1
    # methods and operators of the two array classes
    import operator as op
    METHODS = [("sum", (), {}), ("sum", (0,), {}), ("sum", (1,), {}), ("sum", (-1,), {}), ("mean", (), {}), ("mean", (0,), {}), ("max", (), {}), ("min", (), {}),
               ("ravel", (), {}), ("ravel", ("F",), {}), ("flatten", (), {}), ("flatten", ("F",), {}), ("reshape", (-1,), {}), ("reshape", ((2, -1),), {}),
               ("reshape", ((-1, 1),), {}), ("transpose", (), {}), ("copy", (), {}), ("tolist", (), {}), ("cumsum", (), {}), ("argmax", (), {}), ("argmin", (), {}),
               ("any", (), {}), ("all", (), {}), ("squeeze", (), {}), ("swapaxes", (0, 1), {}), ("dot", ("<vec>",), {}), ("astype", (int,), {}), ("astype", (float,), {})]
    import ast as _ast
    from sa.core.absint import Abs, Raised
    _ab = Abs({}, {}, {}, None)
    # the analysed program's operators go through the interpreter: that is what is tested
    OPS = [("+", op.add, lambda x, y: _ab.binop(_ast.Add(), x, y)), ("-", op.sub, lambda x, y: _ab.binop(_ast.Sub(), x, y)),
           ("*", op.mul, lambda x, y: _ab.binop(_ast.Mult(), x, y)), ("/", op.truediv, lambda x, y: _ab.binop(_ast.Div(), x, y)),
           ("<", op.lt, lambda x, y: _ab.compare(_ast.Lt(), x, y)), ("<=", op.le, lambda x, y: _ab.compare(_ast.LtE(), x, y)),
           (">", op.gt, lambda x, y: _ab.compare(_ast.Gt(), x, y)), (">=", op.ge, lambda x, y: _ab.compare(_ast.GtE(), x, y)),
           ("==", op.eq, lambda x, y: _ab.compare(_ast.Eq(), x, y)), ("!=", op.ne, lambda x, y: _ab.compare(_ast.NotEq(), x, y))]
    if not only or re.search(only, "method|operator"):
        for mname, conv in (("numarr", to_num), ("symarr", to_sym)):
            for meth, margs, mkw in METHODS:
                for _ in range(max(4, n // 3)):
                    a_ = rnd(R.choice([(3,), (4,), (3, 4), (2, 2), (4, 1), (1, 3), (2, 3)]))
                    na = np.array(a_)
                    ma = conv(a_)
                    args_np = tuple(np.array(rnd((na.shape[-1],))) if x == "<vec>" else x for x in margs)
                    args_m = tuple(conv(x.tolist()) if isinstance(x, np.ndarray) else x for x in args_np)
                    try:
                        want = ("value", getattr(na, meth)(*args_np, **mkw))
                    except Exception as e:
                        want = ("raise", type(e).__name__)
                    try:
                        if not hasattr(ma, meth):
                            stats["skipped"] += 1
                            continue
                        got = ("value", from_model(getattr(ma, meth)(*args_m, **mkw)))
                    except A.Undecided:
                        stats["undecided"] += 1
                        continue
                    except Symbolic:
                        stats["skipped"] += 1
                        continue
                    except (ValueError, IndexError, TypeError, ZeroDivisionError) as e:
                        got = ("raise", type(e).__name__)
                    except Exception as e:
                        got = ("crash", "%s: %s" % (type(e).__name__, e))
                    wv = want[1]
                    if want[0] != got[0] or (want[0] == "value" and not same(got[1], wv)):
                        bad.append(("WRONG-METHOD" if want[0] == got[0] == "value" else ("FALSE-RAISE" if want[0] == "value" else "MISSED-RAISE"),
                                    mname, "a.%s%r" % (meth, margs), mkw, (a_,), got[1], want[1]))
                    else:
                        stats["ok"] += 1
            for sym, f, fm in OPS:
                for _ in range(max(6, n // 2)):
                    x_, y_ = pair_b()
                    if sym == "/":
                        y_ = [[v or 1.0 for v in r] for r in y_] if isinstance(y_[0], list) else [v or 1.0 for v in y_]
                    for scalar in (False, True):
                        yy = 2.0 if scalar else y_
                        try:
                            want = ("value", f(np.array(x_), np.array(yy) if not scalar else yy))
                        except Exception as e:
                            want = ("raise", type(e).__name__)
                        try:
                            got = ("value", from_model(fm(conv(x_), conv(yy) if not scalar else yy)))
                        except Raised as e:
                            got = ("raise", str(e.exc))
                        except A.Undecided:
                            stats["undecided"] += 1
                            continue
                        except Symbolic:
                            stats["skipped"] += 1
                            continue
                        except (ValueError, IndexError, TypeError, ZeroDivisionError) as e:
                            got = ("raise", type(e).__name__)
                        if want[0] != got[0] or (want[0] == "value" and not same(got[1], want[1])):
                            bad.append(("WRONG-OP" if want[0] == got[0] else ("FALSE-RAISE" if want[0] == "value" else "MISSED-RAISE"), mname, "a %s b" % sym, {}, (x_, yy), got[1], want[1]))
                        else:
                            stats["ok"] += 1
    seen = set()
    for kind, mname, name, kw, args, got, want in bad:
        key = (kind, mname, name, tuple(sorted(kw.items())), tuple(shape_of(a) if isinstance(a, list) else () for a in args))
        if key in seen:
            continue
        seen.add(key)
        print("%-12s %-7s %s %s  arg shapes %s" % (kind, mname, name, kw or "", [shape_of(a) if isinstance(a, list) else a for a in args]))
        if verbose:
            print("     model:", np.asarray(got).tolist() if not isinstance(got, (str, list)) else got)
            print("     numpy:", np.asarray(want).tolist() if not isinstance(want, (str, list)) else want)
    print("summary:", stats, "distinct findings:", len(seen))
    return 1 if seen else 0


if __name__ == "__main__":
    ap = argparse.ArgumentParser()
    ap.add_argument("-n", type=int, default=25)
    ap.add_argument("--only")
    ap.add_argument("-v", action="store_true")
    a = ap.parse_args()
    sys.exit(run(a.n, a.only, a.v))
