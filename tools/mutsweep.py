#!/usr/bin/env python3
"""Systematic single-point mutation sweep of the analysed functions (a development tool, not a check).

For every function that some property's evidence lists under functions_analysed, generate all single-point mutants of
a fixed operator set (source-level token replacement located through ast positions), write each to a scratch copy of
/repo/src (hard links for the untouched files), run ALL 20 checks statically in-process on it and record
  killed (some check reports a new VIOLATION), undecided (exit-2 class), or survived.
Survivors are candidates for blind spots or equivalent mutants; they are triaged by hand (tools/mut_triage.json).

  mutsweep.py gen                      -> /tmp/mutsweep/mutants.json
  mutsweep.py run [-j 16] [--only pat] -> /tmp/mutsweep/results.json
  mutsweep.py show [--status survived] [--func pat]
"""
import ast
import json
import os
import re
import shutil
import sys
import tempfile
from concurrent.futures import ProcessPoolExecutor

sys.path.insert(0, os.path.dirname(os.path.dirname(os.path.abspath(__file__))))
OUT = "/tmp/mutsweep"
SRC = "/repo/src"
PROPS = ["C%02d" % i for i in range(1, 21)]

BINOP = {ast.Add: ("+", "-"), ast.Sub: ("-", "+"), ast.Mult: ("*", "/"), ast.Div: ("/", "*"), ast.Pow: ("**", "*")}
CMPOP = {ast.Lt: ("<", "<="), ast.LtE: ("<=", "<"), ast.Gt: (">", ">="), ast.GtE: (">=", ">"),
         ast.Eq: ("==", "!="), ast.NotEq: ("!=", "=="), ast.Is: ("is", "is not"), ast.IsNot: ("is not", "is"),
         ast.In: ("in", "not in"), ast.NotIn: ("not in", "in")}
AUGOP = {ast.Add: ("+=", "-="), ast.Sub: ("-=", "+=")}


def targets():
    fs = {}
    for p in PROPS:
        e = json.load(open("/verif/evidence/%s.json" % p))
        for f in e["coverage"]["functions_analysed"]:
            fs.setdefault(f, []).append(p)
    return fs


class Src:
    def __init__(self, path):
        with open(path, newline="") as fh:
            self.raw = fh.read()
        self.crlf = "\r\n" in self.raw
        self.text = self.raw.replace("\r\n", "\n")
        self.lines = self.text.split("\n")
        self.offs = [0]
        for ln in self.lines:
            self.offs.append(self.offs[-1] + len(ln) + 1)

    def off(self, lineno, col):
        # ast col offsets are utf8 byte offsets; files are ascii in practice, handle non-ascii conservatively
        line = self.lines[lineno - 1]
        if not line.isascii():
            col = len(line.encode()[:col].decode(errors="ignore"))
        return self.offs[lineno - 1] + col

    def span(self, node):
        return self.off(node.lineno, node.col_offset), self.off(node.end_lineno, node.end_col_offset)


def find_funcs(tree):
    out = {}

    def walk(node, prefix):
        for ch in ast.iter_child_nodes(node):
            if isinstance(ch, (ast.FunctionDef, ast.AsyncFunctionDef)):
                out[prefix + ch.name] = ch
                walk(ch, prefix + ch.name + ".")
            elif isinstance(ch, ast.ClassDef):
                walk(ch, prefix + ch.name + ".")
            else:
                walk(ch, prefix)
    walk(tree, "")
    return out


def gen_for(rel, qual, fn, src):
    """yield (start, end, new_text, operator, description)"""
    text = src.text
    for node in ast.walk(fn):
        if isinstance(node, ast.BinOp) and type(node.op) in BINOP:
            a = src.span(node.left)[1]
            b = src.span(node.right)[0]
            old, new = BINOP[type(node.op)]
            mid = text[a:b]
            if mid.count(old) >= 1 and "#" not in mid:
                k = mid.find(old)
                yield a + k, a + k + len(old), new, "binop", "%s -> %s" % (old, new)
        elif isinstance(node, ast.Compare) and len(node.ops) == 1 and type(node.ops[0]) in CMPOP:
            a = src.span(node.left)[1]
            b = src.span(node.comparators[0])[0]
            old, new = CMPOP[type(node.ops[0])]
            mid = text[a:b]
            m = re.search(r"\s*".join(re.escape(w) for w in old.split()), mid)
            if m and "#" not in mid:
                yield a + m.start(), a + m.end(), new, "cmpop", "%s -> %s" % (old, new)
        elif isinstance(node, ast.AugAssign) and type(node.op) in AUGOP:
            a = src.span(node.target)[1]
            b = src.span(node.value)[0]
            old, new = AUGOP[type(node.op)]
            mid = text[a:b]
            k = mid.find(old)
            if k >= 0:
                yield a + k, a + k + len(old), new, "augop", "%s -> %s" % (old, new)
        elif isinstance(node, ast.Constant):
            s, e = src.span(node)
            v = node.value
            if isinstance(v, bool):
                yield s, e, str(not v), "const", "%r -> %r" % (v, not v)
            elif isinstance(v, int):
                yield s, e, str(v + 1), "const", "%r -> %r" % (v, v + 1)
                if v != 0:
                    yield s, e, str(v - 1), "const", "%r -> %r" % (v, v - 1)
            elif isinstance(v, float):
                yield s, e, repr(v * 2 + 1.0), "const", "%r -> %r" % (v, v * 2 + 1.0)
            elif isinstance(v, str) and v in ("F", "C"):
                nv = "C" if v == "F" else "F"
                yield s, e, repr(nv), "const", "%r -> %r" % (v, nv)
            elif v is None:
                pass
        elif isinstance(node, ast.Call):
            if len(node.args) >= 2 and not any(isinstance(x, ast.Starred) for x in node.args[:2]):
                s0, e0 = src.span(node.args[0])
                s1, e1 = src.span(node.args[1])
                t0, t1 = text[s0:e0], text[s1:e1]
                if t0 != t1:
                    yield s0, e1, t1 + text[e0:s1] + t0, "argswap", "swap args 0,1 of %s" % text[src.span(node.func)[0]:src.span(node.func)[1]][:40]
            # drop a copying call:  x.copy() -> x ; np.array(x)/np.copy(x)/copy.deepcopy(x) -> x
            f = node.func
            if isinstance(f, ast.Attribute) and f.attr == "copy" and not node.args:
                s, e = src.span(node)
                vs, ve = src.span(f.value)
                yield s, e, text[vs:ve], "dropcopy", "drop .copy()"
            if isinstance(f, ast.Attribute) and f.attr in ("deepcopy", "copy", "array") and len(node.args) == 1 and not node.keywords \
                    and isinstance(f.value, ast.Name) and f.value.id in ("np", "copy", "numpy"):
                s, e = src.span(node)
                vs, ve = src.span(node.args[0])
                yield s, e, "(" + text[vs:ve] + ")", "dropcopy", "drop %s.%s()" % (f.value.id, f.attr)
            for kw in node.keywords:
                pass
        elif isinstance(node, ast.Subscript):
            sl = node.slice
            if isinstance(sl, ast.Tuple) and len(sl.elts) == 2:
                s0, e0 = src.span(sl.elts[0])
                s1, e1 = src.span(sl.elts[1])
                t0, t1 = text[s0:e0], text[s1:e1]
                if t0 != t1:
                    yield s0, e1, t1 + text[e0:s1] + t0, "subswap", "swap subscripts [%s, %s]" % (t0, t1)
        elif isinstance(node, ast.UnaryOp) and isinstance(node.op, ast.Not):
            s, e = src.span(node)
            vs, ve = src.span(node.operand)
            yield s, e, "(" + text[vs:ve] + ")", "dropnot", "drop not"
        elif isinstance(node, ast.UnaryOp) and isinstance(node.op, ast.USub) and not isinstance(node.operand, ast.Constant):
            s, e = src.span(node)
            vs, ve = src.span(node.operand)
            yield s, e, "(" + text[vs:ve] + ")", "dropneg", "drop unary minus"
        elif isinstance(node, ast.BoolOp):
            a = src.span(node.values[0])[1]
            b = src.span(node.values[1])[0]
            old, new = ("and", "or") if isinstance(node.op, ast.And) else ("or", "and")
            mid = text[a:b]
            m = re.search(r"\b%s\b" % old, mid)
            if m and "#" not in mid:
                yield a + m.start(), a + m.end(), new, "boolop", "%s -> %s" % (old, new)
        if isinstance(node, (ast.If, ast.While)):
            s, e = src.span(node.test)
            if not (isinstance(node.test, ast.UnaryOp) and isinstance(node.test.op, ast.Not)):
                yield s, e, "not (" + text[s:e] + ")", "negcond", "negate condition"
        # statement deletion (simple statements only)
        if isinstance(node, (ast.Expr, ast.Assign, ast.AugAssign)) :
            if isinstance(node, ast.Expr) and isinstance(node.value, ast.Constant):
                continue            # docstring
            s, e = src.span(node)
            if isinstance(node, ast.Assign):
                # deleting a definition usually gives NameError (trivially loud); only delete stores into attributes/subscripts
                if not all(isinstance(t, (ast.Attribute, ast.Subscript)) for t in node.targets):
                    continue
            yield s, e, "pass", "delstmt", "delete statement"
        if isinstance(node, (ast.Break, ast.Continue)):
            s, e = src.span(node)
            yield s, e, "pass", "delstmt", "delete %s" % type(node).__name__.lower()
        if isinstance(node, ast.Return) and node.value is not None and isinstance(node.value, ast.Tuple) and len(node.value.elts) >= 2:
            s0, e0 = src.span(node.value.elts[0])
            s1, e1 = src.span(node.value.elts[1])
            yield s0, e1, text[s1:e1] + text[e0:s1] + text[s0:e0], "retswap", "swap return slots 0,1"


def gen():
    os.makedirs(OUT, exist_ok=True)
    tg = targets()
    by_file = {}
    for f, props in tg.items():
        rel, qual = f.split("::", 1)
        by_file.setdefault(rel, []).append((qual, props))
    muts = []
    for rel, quals in sorted(by_file.items()):
        if rel.endswith(".pyx"):
            continue
        path = os.path.join(SRC, rel)
        src = Src(path)
        tree = ast.parse(src.text)
        funcs = find_funcs(tree)
        seen = set()
        for qual, props in sorted(quals):
            fn = funcs.get(qual)
            if fn is None:
                # nested names like Class.method::inner or property setters: try the prefix
                q2 = qual.split("::")[0].replace(".setter", "").replace(".getter", "")
                fn = funcs.get(q2)
            if fn is None:
                print("no function for", rel, qual, file=sys.stderr)
                continue
            for (s, e, new, op, desc) in gen_for(rel, qual, fn, src):
                key = (s, e, new)
                if key in seen:
                    continue
                seen.add(key)
                mutated = src.text[:s] + new + src.text[e:]
                try:
                    compile(mutated, path, "exec")
                except SyntaxError:
                    continue
                line = src.text.count("\n", 0, s) + 1
                muts.append({"id": len(muts), "file": rel, "func": qual, "props": props, "line": line, "op": op,
                             "desc": desc, "start": s, "end": e, "new": new,
                             "orig_line": src.lines[line - 1].strip()[:160]})
    json.dump(muts, open(os.path.join(OUT, "mutants.json"), "w"), indent=0)
    print(len(muts), "mutants in", len(by_file), "files")
    from collections import Counter
    print(Counter(m["op"] for m in muts))


def _linktree(dst):
    for root, dirs, files in os.walk(SRC):
        dirs[:] = [d for d in dirs if d != "__pycache__"]
        r = os.path.relpath(root, SRC)
        os.makedirs(os.path.join(dst, "src", r), exist_ok=True)
        for fn in files:
            if fn.endswith((".so", ".c", ".pyc")):
                continue
            try:
                os.link(os.path.join(root, fn), os.path.join(dst, "src", r, fn))
            except OSError:
                shutil.copy(os.path.join(root, fn), os.path.join(dst, "src", r, fn))


def run_one(m):
    import importlib
    from sa.core.source import Repo, AnalysisError
    from sa import report
    from sa.run import _register_abstract_classes
    tmp = tempfile.mkdtemp(prefix="sa_mut_")
    res = {"id": m["id"], "killed_by": [], "undecided_by": [], "crash_by": []}
    try:
        _linktree(tmp)
        p = os.path.join(tmp, "src", m["file"])
        src = Src(os.path.join(SRC, m["file"]))
        mutated = src.text[:m["start"]] + m["new"] + src.text[m["end"]:]
        os.unlink(p)
        with open(p, "w", newline="") as fh:
            fh.write(mutated.replace("\n", "\r\n") if src.crlf else mutated)
        known_all = report.load_known()
        for prop in PROPS:
            try:
                repo = Repo(tmp)
                _register_abstract_classes(repo)
                mod = importlib.import_module("sa.checks." + prop)
                r = report.Result(prop, repo)
                mod.check(repo, r, "quick")
                known = {(k["rule"], k["construct"]) for k in known_all if k.get("property") == prop and k.get("status") == "known"}
                viol = [(o.rule, o.construct) for o in r.obs if o.status == report.VIOLATED and (o.rule, o.construct) not in known]
                und = [(o.rule, o.construct) for o in r.obs if o.status == report.UNDECIDED]
                if viol:
                    res["killed_by"].append([prop, viol[0][0], viol[0][1][-80:]])
                elif und:
                    res["undecided_by"].append([prop, und[0][0], und[0][1][-80:]])
            except AnalysisError as e:
                res["undecided_by"].append([prop, "AnalysisError", str(e)[:120]])
            except Exception as e:
                res["crash_by"].append([prop, type(e).__name__, str(e)[:120]])
        res["status"] = "killed" if res["killed_by"] else ("undecided" if (res["undecided_by"] or res["crash_by"]) else "survived")
    finally:
        shutil.rmtree(tmp, ignore_errors=True)
    return res


def _guarded(m):
    """run one mutant under a CPU-time and address-space limit: a mutant can make the interpreter loop or allocate without bound"""
    import resource, signal
    try:
        resource.setrlimit(resource.RLIMIT_AS, (6 << 30, 6 << 30))
    except Exception:
        pass

    def on_alarm(sig, frm):
        raise TimeoutError("mutant analysis exceeded 300 s")
    signal.signal(signal.SIGALRM, on_alarm)
    signal.alarm(300)
    try:
        return run_one(m)
    except (TimeoutError, MemoryError, RecursionError) as e:
        return {"id": m["id"], "killed_by": [], "undecided_by": [], "crash_by": [["*", type(e).__name__, str(e)[:100]]], "status": "undecided"}
    finally:
        signal.alarm(0)


def run(jobs=16, only=None):
    import multiprocessing as mp
    muts = json.load(open(os.path.join(OUT, "mutants.json")))
    if only:
        muts = [m for m in muts if re.search(only, m["file"] + "::" + m["func"])]
    results = {}
    rp = os.path.join(OUT, "results.json")
    if os.path.exists(rp):
        results = {int(k): v for k, v in json.load(open(rp)).items()}
    todo = [m for m in muts if m["id"] not in results]
    print("running", len(todo), "mutants")
    while todo:
        try:
            with mp.Pool(jobs, maxtasksperchild=20) as pool:
                for i, r in enumerate(pool.imap_unordered(_guarded, todo, chunksize=1)):
                    results[r["id"]] = r
                    if i % 100 == 0:
                        json.dump(results, open(rp, "w"))
                        print(len(results), flush=True)
            break
        except Exception as e:      # a worker died: keep what we have, go on with the rest
            print("pool failure:", type(e).__name__, e, flush=True)
            json.dump(results, open(rp, "w"))
            todo = [m for m in muts if m["id"] not in results]
            if todo:
                bad = todo.pop(0)
                results[bad["id"]] = {"id": bad["id"], "killed_by": [], "undecided_by": [], "crash_by": [["*", "worker-died", ""]], "status": "undecided"}
    json.dump(results, open(rp, "w"))
    from collections import Counter
    print(Counter(r["status"] for r in results.values()))


def show(status="survived", func=None, op=None):
    muts = {m["id"]: m for m in json.load(open(os.path.join(OUT, "mutants.json")))}
    results = {int(k): v for k, v in json.load(open(os.path.join(OUT, "results.json"))).items()}
    tri = {}
    tp = "/verif/tools/mut_triage.json"
    if os.path.exists(tp):
        tri = json.load(open(tp))
    n = 0
    for i, r in sorted(results.items()):
        m = muts[i]
        if r["status"] != status:
            continue
        if func and not re.search(func, m["file"] + "::" + m["func"]):
            continue
        if op and m["op"] != op:
            continue
        key = "%s::%s::%s::%s" % (m["file"], m["func"], m["orig_line"], m["desc"])
        if key in tri:
            continue
        n += 1
        extra = ""
        if status != "survived":
            extra = " | " + str((r["killed_by"] or r["undecided_by"] or r["crash_by"])[:2])
        print("%5d %s::%s:%d [%s] %s   | %s%s" % (i, m["file"].split("/")[-1], m["func"], m["line"], m["op"], m["desc"], m["orig_line"][:110], extra))
    print(n, "shown")


if __name__ == "__main__":
    cmd = sys.argv[1]
    if cmd == "gen":
        gen()
    elif cmd == "run":
        j = 16
        only = None
        a = sys.argv[2:]
        while a:
            if a[0] == "-j":
                j = int(a[1]); a = a[2:]
            elif a[0] == "--only":
                only = a[1]; a = a[2:]
            else:
                a = a[1:]
        run(j, only)
    elif cmd == "show":
        kw = {}
        a = sys.argv[2:]
        while a:
            if a[0] == "--status":
                kw["status"] = a[1]
            elif a[0] == "--func":
                kw["func"] = a[1]
            elif a[0] == "--op":
                kw["op"] = a[1]
            a = a[2:]
        show(**kw)
