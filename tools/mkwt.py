#!/usr/bin/env python3
"""Create / remove scratch worktrees of /repo for sub-agents and render their prompts.

  mkwt.py add <prefix> <pid> [...]       /tmp/<prefix>_<pid>  (git worktree of /repo HEAD, plus the built _tau_leap .so)
  mkwt.py rm  <prefix> <pid> [...]       remove them again (with build output)
  mkwt.py prompt seed|refactor <pid> <wt> [focus text]   print the prompt for one agent

Only the property text (and, for refactorings, its anchors) goes into a prompt; nothing from /verif's checks.
"""
import glob
import json
import os
import shutil
import subprocess
import sys

PROPS = {}
for line in open("/verif/properties.jsonl"):
    p = json.loads(line)
    PROPS[p["id"]] = p


def add(prefix, pid):
    wt = "/tmp/%s_%s" % (prefix, pid)
    if os.path.exists(wt):
        rm(prefix, pid)
    subprocess.run(["git", "-C", "/repo", "worktree", "add", "--detach", "-f", wt, "HEAD"], check=True,
                   capture_output=True)
    for so in glob.glob("/repo/src/pygom/model/_tau_leap*.so"):
        shutil.copy(so, os.path.join(wt, "src/pygom/model/"))
    excl = subprocess.run(["git", "-C", wt, "rev-parse", "--git-path", "info/exclude"], capture_output=True, text=True).stdout.strip()
    print(wt)
    return wt


def rm(prefix, pid):
    wt = "/tmp/%s_%s" % (prefix, pid)
    subprocess.run(["git", "-C", "/repo", "worktree", "remove", "--force", wt], capture_output=True)
    shutil.rmtree(wt, ignore_errors=True)
    subprocess.run(["git", "-C", "/repo", "worktree", "prune"], capture_output=True)


def prompt(kind, pid, wt, focus=""):
    p = PROPS[pid]
    tpl = open("/verif/tools/agent_prompt%s.txt" % ("" if kind == "seed" else "_refactor")).read()
    anchors = "; ".join("%s (%s)" % (m["where"], m["name"]) for m in p["anchors"].get("mechanism", []))
    text = tpl.format(pid=pid, title=p["title"], statement=p["statement"], quant=p["quantifier"]["text"], wt=wt,
                      anchors=anchors)
    if focus:
        text += "\n\nFOCUS FOR THIS ATTEMPT: " + focus + "\n"
    return text


if __name__ == "__main__":
    cmd = sys.argv[1]
    if cmd == "add":
        for pid in sys.argv[3:]:
            add(sys.argv[2], pid)
    elif cmd == "rm":
        for pid in sys.argv[3:]:
            rm(sys.argv[2], pid)
    elif cmd == "prompt":
        print(prompt(sys.argv[2], sys.argv[3], sys.argv[4], " ".join(sys.argv[5:])))
